//! Line protocol shared with the Lean driver (DESIGN.md Appendix B) and the
//! implementation-side interpreter of the same commands.

use std::fmt::Write as _;
use zilog_z80::cpu::{VerifCtl, CPU};

/// xorshift64* — the single source of randomness (seeded from VERIF_SEED).
#[derive(Clone)]
pub struct Rng(pub u64);
impl Rng {
    pub fn new(seed: u64) -> Rng {
        Rng(seed.wrapping_mul(0x9E3779B97F4A7C15) ^ 0xD1B54A32D192ED03 | 1)
    }
    pub fn next(&mut self) -> u64 {
        let mut x = self.0;
        x ^= x >> 12;
        x ^= x << 25;
        x ^= x >> 27;
        self.0 = x;
        x.wrapping_mul(0x2545F4914F6CDD1D)
    }
    pub fn below(&mut self, n: u64) -> u64 {
        (self.next() >> 11) % n
    }
    pub fn u8(&mut self) -> u8 {
        (self.next() >> 24) as u8
    }
    pub fn u16(&mut self) -> u16 {
        (self.next() >> 24) as u16
    }
    pub fn bool(&mut self) -> bool {
        self.next() & (1 << 40) != 0
    }
    pub fn pick<T: Copy>(&mut self, xs: &[T]) -> T {
        xs[self.below(xs.len() as u64) as usize]
    }
}

/// the shared fill function (same as `fillByte` in Driver/Main.lean)
pub fn fill_byte(seed: u32, a: u32) -> u8 {
    if seed == 0 {
        return 0;
    }
    let mut x = seed ^ a.wrapping_mul(0x9E3779B1);
    x ^= x << 13;
    x ^= x >> 17;
    x ^= x << 5;
    x = x.wrapping_mul(0x85EBCA6B);
    (x >> 16) as u8
}

pub fn mk_image(seed: u32, len: usize) -> Vec<u8> {
    (0..len).map(|i| fill_byte(seed, i as u32)).collect()
}

/// Index of each register byte inside `St::regs`.
pub const A: usize = 0;
pub const F: usize = 1;
pub const B: usize = 2;
pub const C: usize = 3;
pub const D: usize = 4;
pub const E: usize = 5;
pub const H: usize = 6;
pub const L: usize = 7;
pub const IXH: usize = 8;
pub const IXL: usize = 9;
pub const IYH: usize = 10;
pub const IYL: usize = 11;
pub const I: usize = 12;
pub const R: usize = 13;

#[derive(Clone, Debug, PartialEq)]
pub struct St {
    pub regs: [u8; 14],
    pub sp: u16,
    pub pc: u16,
    pub alt: [u8; 8],
    pub halt: bool,
    pub int: Option<u8>,
    pub nmi: bool,
    pub im: u8,
    pub iff1: bool,
    pub iff2: bool,
    pub dbg: [bool; 4],
    /// a stale diagnostic text is present before the step
    pub stale: bool,
    pub sdur: u32,
    pub smax: u32,
    pub scur: u32,
    pub top: u16,
    pub rom: Option<(u16, u16)>,
    pub seed: u32,
    pub ovr: Vec<(u16, u8)>,
}

impl Default for St {
    fn default() -> St {
        St {
            regs: [0; 14],
            sp: 0,
            pc: 0,
            alt: [0; 8],
            halt: false,
            int: None,
            nmi: false,
            im: 0,
            iff1: false,
            iff2: false,
            dbg: [false; 4],
            stale: false,
            sdur: 16,
            smax: 35000,
            scur: 0,
            top: 0xFFFF,
            rom: None,
            seed: 0,
            ovr: vec![],
        }
    }
}

impl St {
    pub fn pair(&self, hi: usize) -> u16 {
        (self.regs[hi] as u16) << 8 | self.regs[hi + 1] as u16
    }
    pub fn set_pair(&mut self, hi: usize, v: u16) {
        self.regs[hi] = (v >> 8) as u8;
        self.regs[hi + 1] = v as u8;
    }
    /// place bytes at consecutive addresses (wrapping) as overrides
    pub fn poke(&mut self, addr: u16, bytes: &[u8]) {
        for (k, b) in bytes.iter().enumerate() {
            let a = addr.wrapping_add(k as u16);
            self.ovr.retain(|(x, _)| *x != a);
            self.ovr.push((a, *b));
        }
    }
    /// byte the image will hold at `a` (0 above top)
    pub fn peek(&self, a: u16) -> u8 {
        if a as u32 > self.top as u32 {
            return 0;
        }
        for (x, b) in self.ovr.iter().rev() {
            if *x == a {
                return *b;
            }
        }
        fill_byte(self.seed, a as u32)
    }
    pub fn regctl_text(&self) -> String {
        let mut s = String::new();
        for b in self.regs {
            write!(s, "{:02X}", b).unwrap();
        }
        write!(s, " {:04X} {:04X} ", self.sp, self.pc).unwrap();
        for b in self.alt {
            write!(s, "{:02X}", b).unwrap();
        }
        write!(
            s,
            " {} {} {} {:02X} {} {}",
            self.halt as u8,
            match self.int {
                None => "--".to_string(),
                Some(b) => format!("{:02X}", b),
            },
            self.nmi as u8,
            self.im,
            self.iff1 as u8,
            self.iff2 as u8
        )
        .unwrap();
        s
    }
    pub fn line(&self) -> String {
        let mut s = format!("S {} ", self.regctl_text());
        for b in self.dbg {
            s.push(if b { '1' } else { '0' });
        }
        if self.stale {
            s.push('1');
        }
        write!(s, " {:08X} {:08X} {:08X} {:04X} ", self.sdur, self.smax, self.scur, self.top).unwrap();
        match self.rom {
            None => s.push('-'),
            Some((a, b)) => write!(s, "{:04X}:{:04X}", a, b).unwrap(),
        }
        write!(s, " {:08X} {}", self.seed, self.ovr.len()).unwrap();
        for (a, b) in &self.ovr {
            write!(s, " {:04X}:{:02X}", a, b).unwrap();
        }
        s
    }
}

#[derive(Clone, Debug)]
pub enum Cmd {
    S(Box<St>),
    /// like S, but loads the state into the EXISTING CPU object (same top address) instead of creating a
    /// new one: anything the implementation keeps outside the modelled state survives
    SR(Box<St>),
    /// like S, but always into a freshly constructed CPU object (its slice clock starts now)
    SN(Box<St>),
    /// patch registers + control, keep memory
    P(Box<St>),
    X,
    T,
    D,
    I(u8),
    N,
    WB(u16, u8),
    WW(u16, u16),
    RB(u16),
    RW(u16),
    RLW(u16),
    RLD(u16),
    ROM(u16, u16),
    SL(usize, usize),
    CL(usize, usize),
    /// origin, Some(len)/None = missing file, content seed
    LB(u16, Option<usize>, u32),
    DA(u16),
    SD(u32),
    /// (run time) tell the model the implementation's current registers + control state
    Sync,
    /// (run time) like Sync but with PC replaced
    SetPC(u16),
    /// (run time) repeat [X ; SetPC pc0] until BC = 0 (or, when `stop_on_z`, Z is set); at most `max` rounds
    Singles { pc0: u16, stop_on_z: bool, max: u32 },
    /// `set_freq(n8 / 8 MHz)` after the slice duration was set: reply = the budget it computed
    SF(u32),
    /// `set_freq(f32::from_bits(bits))`: reply = the budget it computed
    SFB(u32),
    /// register-pair accessor round trip: set pair `which` (0 BC 1 DE 2 HL 3 IX 4 IY 5 AF) to `v`
    SetPair(u8, u16),
    /// the host stalls for that many milliseconds (the model has no clock: a no-op there)
    Nap(u32),
    /// (run time) the host stores `v` at the current PC + `delta` through `write_byte`
    WBPC(i16, u8),
    /// (run time) the host sets one register pair of the running CPU (0 BC 1 DE 2 HL 3 IX 4 IY 5 SP 7 AF)
    HostReg(u8, u16),
    /// register sweep: one step from the installed state for every value of 16-bit register `which`
    /// (0 BC 1 DE 2 HL 3 IX 4 IY 5 SP 6 PC 7 AF) in block `blk` of `nblk`; flag hash under `fmask`
    SWR { which: u8, blk: u32, nblk: u32, fmask: u8, link: Option<(u8, u16)> },
}

impl Cmd {
    pub fn line(&self) -> String {
        match self {
            Cmd::S(s) => s.line(),
            Cmd::SR(s) => s.line(),
            Cmd::SN(s) => format!("SN{}", &s.line()[1..]),
            Cmd::P(s) => format!("P {}", s.regctl_text()),
            Cmd::X => "X".into(),
            Cmd::T => "T 0".into(),
            Cmd::D => "D".into(),
            Cmd::I(b) => format!("I {:02X}", b),
            Cmd::N => "N".into(),
            Cmd::WB(a, v) => format!("WB {:04X} {:02X}", a, v),
            Cmd::WW(a, v) => format!("WW {:04X} {:04X}", a, v),
            Cmd::RB(a) => format!("RB {:04X}", a),
            Cmd::RW(a) => format!("RW {:04X}", a),
            Cmd::RLW(a) => format!("RLW {:04X}", a),
            Cmd::RLD(a) => format!("RLD {:04X}", a),
            Cmd::ROM(a, b) => format!("ROM {:04X} {:04X}", a, b),
            Cmd::SL(a, b) => format!("SL {:X} {:X}", a, b),
            Cmd::CL(a, b) => format!("CL {:X} {:X}", a, b),
            Cmd::LB(o, l, s) => match l {
                Some(n) => format!("LB {:04X} {:X} {:X}", o, n, s),
                None => format!("LB {:04X} missing {:X}", o, s),
            },
            Cmd::DA(a) => format!("DA {:04X}", a),
            Cmd::SD(d) => format!("SD {:X}", d),
            Cmd::SetPair(w, v) => format!("SP16 {} {:04X}", w, v),
            Cmd::SF(n8) => format!("SF {:X}", n8),
            Cmd::SFB(b) => format!("SFB {:X}", b),
            Cmd::Nap(ms) => format!("NAP {:X}", ms),
            Cmd::SWR { which, blk, nblk, fmask, link } => match link {
                None => format!("SWR {:X} {:X} {:X} {:02X}", which, blk, nblk, fmask),
                Some((l, d)) => format!("SWR {:X} {:X} {:X} {:02X} {:X} {:04X}", which, blk, nblk, fmask, l, d),
            },
            Cmd::Sync | Cmd::SetPC(_) | Cmd::Singles { .. } | Cmd::WBPC(..) | Cmd::HostReg(..) => "<runtime>".into(),
        }
    }
}

/// The implementation side: the real CPU driven by the same commands.
pub struct Imp {
    pub cpu: CPU,
    pub base: Vec<u8>,
    cache: Vec<(u32, usize, Vec<u8>)>,
    pub tmpdir: String,
    pub tmpn: u64,
    /// reuse the CPU object across `S` commands when the memory size allows
    pub reuse: bool,
    /// the state installed last (register sweeps restart from it)
    pub last: Option<St>,
}

fn load_regs(c: &mut CPU, s: &St) {
    let r = &mut c.reg;
    r.a = s.regs[A];
    r.flags.set_from_byte(s.regs[F]);
    r.b = s.regs[B];
    r.c = s.regs[C];
    r.d = s.regs[D];
    r.e = s.regs[E];
    r.h = s.regs[H];
    r.l = s.regs[L];
    r.ixh = s.regs[IXH];
    r.ixl = s.regs[IXL];
    r.iyh = s.regs[IYH];
    r.iyl = s.regs[IYL];
    r.i = s.regs[I];
    r.r = s.regs[R];
    r.sp = s.sp;
    r.pc = s.pc;
    let t = &mut c.alt;
    t.a = s.alt[0];
    t.flags.set_from_byte(s.alt[1]);
    t.b = s.alt[2];
    t.c = s.alt[3];
    t.d = s.alt[4];
    t.e = s.alt[5];
    t.h = s.alt[6];
    t.l = s.alt[7];
}

/// registers + control state of the implementation in the `P` line format
pub fn regctl_of(c: &CPU, pc: Option<u16>) -> String {
    let r = &c.reg;
    let t = &c.alt;
    let k = c.verif_ctl();
    format!(
        "{:02X}{:02X}{:02X}{:02X}{:02X}{:02X}{:02X}{:02X}{:02X}{:02X}{:02X}{:02X}{:02X}{:02X} {:04X} {:04X} {:02X}{:02X}{:02X}{:02X}{:02X}{:02X}{:02X}{:02X} {} {} {} {:02X} {} {}",
        r.a, r.flags.to_byte(), r.b, r.c, r.d, r.e, r.h, r.l, r.ixh, r.ixl, r.iyh, r.iyl, r.i, r.r, r.sp,
        pc.unwrap_or(r.pc),
        t.a, t.flags.to_byte(), t.b, t.c, t.d, t.e, t.h, t.l,
        k.halt as u8,
        match k.int { None => "--".to_string(), Some(b) => format!("{:02X}", b) },
        k.nmi as u8, k.im, k.iff1 as u8, k.iff2 as u8
    )
}

pub fn state_reply(c: &CPU, cyc: u32) -> String {
    let r = &c.reg;
    let t = &c.alt;
    let k = c.verif_ctl();
    let mut s = format!(
        "R {:02X}{:02X}{:02X}{:02X}{:02X}{:02X}{:02X}{:02X}{:02X}{:02X}{:02X}{:02X}{:02X}{:02X} {:04X} {:04X} ",
        r.a,
        r.flags.to_byte(),
        r.b,
        r.c,
        r.d,
        r.e,
        r.h,
        r.l,
        r.ixh,
        r.ixl,
        r.iyh,
        r.iyl,
        r.i,
        r.r,
        r.sp,
        r.pc
    );
    write!(
        s,
        "{:02X}{:02X}{:02X}{:02X}{:02X}{:02X}{:02X}{:02X} {} {} {} {:02X} {} {} {} ",
        t.a,
        t.flags.to_byte(),
        t.b,
        t.c,
        t.d,
        t.e,
        t.h,
        t.l,
        k.halt as u8,
        match k.int {
            None => "--".to_string(),
            Some(b) => format!("{:02X}", b),
        },
        k.nmi as u8,
        k.im,
        k.iff1 as u8,
        k.iff2 as u8,
        cyc
    )
    .unwrap();
    if c.debug.string.is_empty() {
        s.push('-');
    } else {
        for ch in c.debug.string.chars() {
            write!(s, "{:02X}", (ch as u32) & 0xFF).unwrap();
        }
    }
    s
}

impl Imp {
    pub fn new(tmpdir: &str) -> Imp {
        Imp { cpu: CPU::new(0), base: vec![], cache: vec![], tmpdir: tmpdir.to_string(), tmpn: 0, reuse: true, last: None }
    }

    fn image(&mut self, seed: u32, len: usize) -> Vec<u8> {
        for (s, l, v) in &self.cache {
            if *s == seed && *l == len {
                return v.clone();
            }
        }
        let v = mk_image(seed, len);
        if self.cache.len() >= 24 {
            self.cache.remove(0);
        }
        self.cache.push((seed, len, v.clone()));
        v
    }

    fn set_ctl(&mut self, s: &St, with_slice: bool) {
        let old = self.cpu.verif_ctl();
        self.cpu.verif_set_ctl(VerifCtl {
            halt: s.halt,
            int: s.int,
            nmi: s.nmi,
            im: s.im,
            iff1: s.iff1,
            iff2: s.iff2,
            slice_duration: if with_slice { s.sdur } else { old.slice_duration },
            slice_max_cycles: if with_slice { s.smax } else { old.slice_max_cycles },
            slice_current_cycles: if with_slice { s.scur } else { old.slice_current_cycles },
        });
    }

    /// Execute one command; returns the driver line(s) it stands for with the implementation's replies.
    pub fn exec_lines(&mut self, cmd: &Cmd) -> Vec<(String, String)> {
        match cmd {
            Cmd::Sync => vec![(format!("P {}", regctl_of(&self.cpu, None)), "ok".into())],
            Cmd::SetPC(pc) => {
                self.cpu.reg.pc = *pc;
                vec![(format!("P {}", regctl_of(&self.cpu, None)), "ok".into())]
            }
            Cmd::WBPC(delta, v) => {
                let a = self.cpu.reg.pc.wrapping_add(*delta as u16);
                self.cpu.bus.write_byte(a, *v);
                vec![(format!("WB {:04X} {:02X}", a, v), "ok".into())]
            }
            Cmd::HostReg(w, v) => {
                {
                    let r = &mut self.cpu.reg;
                    match w {
                        0 => r.set_bc(*v),
                        1 => r.set_de(*v),
                        2 => r.set_hl(*v),
                        3 => r.set_ix(*v),
                        4 => r.set_iy(*v),
                        5 => r.sp = *v,
                        _ => r.set_af(*v),
                    }
                }
                vec![(format!("P {}", regctl_of(&self.cpu, None)), "ok".into())]
            }
            Cmd::Singles { pc0, stop_on_z, max } => {
                let mut out = vec![];
                for _ in 0..*max {
                    let cyc = self.cpu.execute();
                    out.push(("X".to_string(), state_reply(&self.cpu, cyc)));
                    let done = self.cpu.reg.get_bc() == 0 || (*stop_on_z && self.cpu.reg.flags.z);
                    if done {
                        break;
                    }
                    self.cpu.reg.pc = *pc0;
                    out.push((format!("P {}", regctl_of(&self.cpu, None)), "ok".into()));
                }
                out
            }
            _ => vec![(cmd.line(), self.exec(cmd))],
        }
    }

    /// Execute one plain command on the real implementation; the reply has the driver's format.
    pub fn exec(&mut self, cmd: &Cmd) -> String {
        match cmd {
            Cmd::Sync | Cmd::SetPC(_) | Cmd::Singles { .. } | Cmd::WBPC(..) | Cmd::HostReg(..) => unreachable!(),
            Cmd::SetPair(w, v) => {
                let r = &mut self.cpu.reg;
                let got = match w {
                    0 => { r.set_bc(*v); r.get_bc() }
                    1 => { r.set_de(*v); r.get_de() }
                    2 => { r.set_hl(*v); r.get_hl() }
                    3 => { r.set_ix(*v); r.get_ix() }
                    4 => { r.set_iy(*v); r.get_iy() }
                    _ => { r.set_af(*v); r.get_af() }
                };
                format!("{} {:04X}", state_reply(&self.cpu, 0), got)
            }
            Cmd::SN(s) => {
                let keep = self.reuse;
                self.reuse = false;
                let r = self.exec(&Cmd::S(s.clone()));
                self.reuse = keep;
                r
            }
            Cmd::S(s) if self.reuse && self.cpu.bus.verif_mem().len() == s.top as usize + 1 => {
                // keep the CPU object: anything the implementation carries from one call to the next
                // outside the modelled state then shows up as a disagreement
                self.exec(&Cmd::SR(s.clone()))
            }
            Cmd::S(s) => {
                let len = s.top as usize + 1;
                let mut img = self.image(s.seed, len);
                for (a, b) in &s.ovr {
                    if (*a as usize) < len {
                        img[*a as usize] = *b;
                    }
                }
                self.cpu = CPU::new(s.top);
                self.cpu.bus.verif_mem_mut().copy_from_slice(&img);
                if let Some((a, b)) = s.rom {
                    self.cpu.bus.set_romspace(a, b);
                }
                load_regs(&mut self.cpu, s);
                self.set_ctl(s, true);
                self.cpu.debug.unknw_instr = s.dbg[0];
                self.cpu.debug.opcode = s.dbg[1];
                self.cpu.debug.io = s.dbg[2];
                self.cpu.debug.instr_in = s.dbg[3];
                self.cpu.debug.string = if s.stale { String::from("0xSTALE") } else { String::new() };
                self.base = img;
                self.last = Some((**s).clone());
                "ok".into()
            }
            Cmd::SR(s) => {
                let len = s.top as usize + 1;
                if self.cpu.bus.verif_mem().len() != len {
                    let keep = self.reuse;
                    self.reuse = false;
                    let r = self.exec(&Cmd::S(s.clone()));
                    self.reuse = keep;
                    return r;
                }
                let mut img = self.image(s.seed, len);
                for (a, b) in &s.ovr {
                    if (*a as usize) < len {
                        img[*a as usize] = *b;
                    }
                }
                self.cpu.bus.verif_mem_mut().copy_from_slice(&img);
                self.cpu.bus.verif_clear_rom();
                if let Some((a, b)) = s.rom {
                    self.cpu.bus.set_romspace(a, b);
                }
                load_regs(&mut self.cpu, s);
                self.set_ctl(s, true);
                self.cpu.debug.unknw_instr = s.dbg[0];
                self.cpu.debug.opcode = s.dbg[1];
                self.cpu.debug.io = s.dbg[2];
                self.cpu.debug.instr_in = s.dbg[3];
                self.cpu.debug.string = if s.stale { String::from("0xSTALE") } else { String::new() };
                self.base = img;
                self.last = Some((**s).clone());
                "ok".into()
            }
            Cmd::P(s) => {
                load_regs(&mut self.cpu, s);
                self.set_ctl(s, false);
                "ok".into()
            }
            Cmd::X => {
                let cyc = self.cpu.execute();
                state_reply(&self.cpu, cyc)
            }
            Cmd::T => {
                let sl = self.cpu.execute_timed();
                let k = self.cpu.verif_ctl();
                let mut s = state_reply(&self.cpu, 0);
                match sl {
                    None => s.push_str(" -"),
                    // the requested sleep must never exceed the slice duration (checked on the implementation itself)
                    Some(v) if v > k.slice_duration => write!(s, " X{:08X}", v).unwrap(),
                    Some(v) => write!(s, " {:08X}", v).unwrap(),
                }
                write!(s, " {:08X}", k.slice_current_cycles).unwrap();
                s
            }
            Cmd::D => {
                let m = self.cpu.bus.verif_mem();
                let mut out = String::new();
                let mut n = 0;
                for i in 0..m.len() {
                    if m[i] != self.base[i] {
                        write!(out, " {:04X}:{:02X}", i, m[i]).unwrap();
                        n += 1;
                    }
                }
                format!("D {}{}", n, out)
            }
            Cmd::I(b) => {
                self.cpu.int_request(*b);
                "ok".into()
            }
            Cmd::N => {
                self.cpu.nmi_request();
                "ok".into()
            }
            Cmd::WB(a, v) => {
                self.cpu.bus.write_byte(*a, *v);
                "ok".into()
            }
            Cmd::WW(a, v) => {
                self.cpu.bus.write_word(*a, *v);
                "ok".into()
            }
            Cmd::RB(a) => format!("V {:02X}", self.cpu.bus.read_byte(*a)),
            Cmd::RW(a) => format!("V {:04X}", self.cpu.bus.read_word(*a)),
            Cmd::RLW(a) => format!("V {:04X}", self.cpu.bus.read_le_word(*a)),
            Cmd::RLD(a) => format!("V {:08X}", self.cpu.bus.read_le_dword(*a)),
            Cmd::ROM(a, b) => {
                self.cpu.bus.set_romspace(*a, *b);
                "ok".into()
            }
            Cmd::SL(a, b) => {
                let v = self.cpu.bus.read_mem_slice(*a, *b);
                let mut s = String::from("V ");
                for x in v {
                    write!(s, "{:02X}", x).unwrap();
                }
                s
            }
            Cmd::CL(a, b) => {
                self.cpu.bus.clear_mem_slice(*a, *b);
                "ok".into()
            }
            Cmd::LB(org, len, seed) => {
                static NEXT: std::sync::atomic::AtomicU64 = std::sync::atomic::AtomicU64::new(0);
                self.tmpn = NEXT.fetch_add(1, std::sync::atomic::Ordering::SeqCst);
                let path = format!("{}/lb_{}_{}.bin", self.tmpdir, std::process::id(), self.tmpn);
                if let Some(n) = len {
                    let data: Vec<u8> = (0..*n).map(|i| fill_byte(*seed, i as u32)).collect();
                    std::fs::write(&path, data).unwrap();
                } else if *seed == 1 {
                    // a path that can be opened but not read: a directory (still an error value, nothing changes)
                    std::fs::create_dir_all(&path).ok();
                }
                let r = std::panic::catch_unwind(std::panic::AssertUnwindSafe(|| self.cpu.bus.load_bin(&path, *org)));
                let _ = std::fs::remove_file(&path);
                let _ = std::fs::remove_dir(&path);
                match r {
                    Err(e) => std::panic::resume_unwind(e),
                    Ok(Ok(n)) => format!("V {}", n),
                    Ok(Err(_)) => "ERR".into(),
                }
            }
            Cmd::DA(a) => {
                let (t, n) = self.cpu.dasm(*a);
                format!("A {} {}", n, t)
            }
            Cmd::SD(d) => {
                self.cpu.set_slice_duration(*d);
                "ok".into()
            }
            Cmd::Nap(ms) => {
                std::thread::sleep(std::time::Duration::from_millis(*ms as u64));
                "ok".into()
            }
            Cmd::SWR { which, blk, nblk, fmask, link } => {
                let Some(s0) = self.last.clone() else { return "bad-op".into() };
                #[inline]
                fn mix(h: u64, v: u64) -> u64 {
                    (h ^ v).wrapping_mul(0x100000001B3)
                }
                let per = 65536 / *nblk;
                let pc0 = s0.pc;
                let code: Vec<(usize, u8)> =
                    (0..4u16).map(|k| (pc0.wrapping_add(k) as usize, self.cpu.bus.read_byte(pc0.wrapping_add(k)))).collect();
                let init = 0xcbf29ce484222325u64;
                let (mut h1, mut hf, mut h3, mut h4, mut h5) = (init, init, init, init, init);
                for k in 0..per {
                    let v = (*blk * per + k) as u16;
                    load_regs(&mut self.cpu, &s0);
                    self.set_ctl(&s0, false);
                    let mut sets: Vec<(u8, u16)> = vec![(*which, v)];
                    if let Some((l, d)) = link {
                        sets.push((*l, v.wrapping_add(*d)));
                    }
                    for (w, v) in sets {
                        let r = &mut self.cpu.reg;
                        match w {
                            0 => { r.b = (v >> 8) as u8; r.c = v as u8 }
                            1 => { r.d = (v >> 8) as u8; r.e = v as u8 }
                            2 => { r.h = (v >> 8) as u8; r.l = v as u8 }
                            3 => { r.ixh = (v >> 8) as u8; r.ixl = v as u8 }
                            4 => { r.iyh = (v >> 8) as u8; r.iyl = v as u8 }
                            5 => r.sp = v,
                            6 => r.pc = v,
                            8 => { r.i = (v >> 8) as u8; r.r = v as u8 }
                            _ => { r.a = (v >> 8) as u8; r.flags.set_from_byte(v as u8) }
                        }
                    }
                    if *which != 6 {
                        let m = self.cpu.bus.verif_mem_mut();
                        for (a, b) in &code {
                            if *a < m.len() {
                                m[*a] = *b;
                            }
                        }
                    }
                    let cyc = self.cpu.execute();
                    let r = &self.cpu.reg;
                    let t = &self.cpu.alt;
                    for x in [r.a, r.b, r.c, r.d, r.e, r.h, r.l, r.ixh, r.ixl, r.iyh, r.iyl, r.i] {
                        h1 = mix(h1, x as u64);
                    }
                    h1 = mix(h1, r.sp as u64);
                    for x in [t.a, t.flags.to_byte(), t.b, t.c, t.d, t.e, t.h, t.l] {
                        h1 = mix(h1, x as u64);
                    }
                    hf = mix(hf, (r.flags.to_byte() & fmask) as u64);
                    h3 = mix(mix(h3, r.pc as u64), r.sp as u64);
                    h4 = mix(h4, cyc as u64);
                    let c = self.cpu.verif_ctl();
                    h5 = mix(mix(mix(mix(mix(mix(h5, c.halt as u64), c.iff1 as u64), c.iff2 as u64), c.im as u64),
                        match c.int { None => 0x100, Some(b) => b as u64 }), c.nmi as u64);
                }
                let ck = self.cpu.bus.verif_mem().iter().fold(init, |h, b| mix(h, *b as u64));
                format!("H {:016X} {:016X} {:016X} {:016X} - {:016X}", mix(h1, ck), hf, h3, h4, h5)
            }
            Cmd::SFB(b) => {
                self.cpu.set_freq(f32::from_bits(*b));
                format!("V {}", self.cpu.verif_ctl().slice_max_cycles)
            }
            Cmd::SF(n8) => {
                self.cpu.set_freq(*n8 as f32 / 8.0);
                format!("V {}", self.cpu.verif_ctl().slice_max_cycles)
            }
        }
    }
}


/// f x 1000 x d for the value the single `bits` denotes, in exact integer arithmetic: (whole part, is the fraction
/// at least 0.05 away from both neighbouring integers?).  None: not a positive normal number or too large.
pub fn budget_exact(bits: u32, d: u32) -> Option<(u64, bool)> {
    let e = ((bits >> 23) & 0xFF) as i32;
    if bits >> 31 == 1 || e == 0 || e == 255 {
        return None;
    }
    let m = (1u128 << 23) + (bits & 0x7F_FFFF) as u128;
    let n = m * 1000 * d as u128;
    if e >= 150 {
        if e - 150 > 20 {
            return None;
        }
        return Some(((n << (e - 150)) as u64, true));
    }
    let k = (150 - e) as u32;
    if k > 100 {
        return None;
    }
    let den = 1u128 << k;
    let (q, r) = (n / den, n % den);
    Some((q as u64, den <= 20 * r && 20 * r <= 19 * den))
}
