//! Per-property case generators (DESIGN.md section 4).

use crate::engine::*;
use crate::gen::*;
use crate::proto::*;

pub fn quick(tier: &str) -> bool {
    tier != "thorough"
}

const P_NONE: Proj = NONE;

fn p_regs() -> Proj {
    Proj { regs: true, sp: true, ..NONE }
}
fn p_mem() -> Proj {
    Proj { other: true, ..NONE }
}
fn p_full_nor() -> Proj {
    Proj { r: false, ..FULL }
}
/// what the interrupt properties constrain: where control goes, the stack, the enable/halt/latch state
fn p_ctl() -> Proj {
    Proj { pc: true, sp: true, ctl: true, latch: true, ..NONE }
}

fn sbox(s: St) -> Cmd {
    Cmd::S(Box::new(s))
}

fn all_rows() -> Vec<(Page, u8)> {
    let mut v = vec![];
    for page in PAGES {
        for op in 0..=255u8 {
            if is_row(page, op) {
                v.push((page, op));
            }
        }
    }
    v
}

/// every k-th case: a maskable request is pending while interrupts are disabled (must be invisible)
fn maybe_masked(r: &mut Rng, s: &mut St, k: usize) {
    if k % 5 == 4 {
        s.iff1 = false;
        s.int = Some(if k % 2 == 0 { r.pick(&RST_OPS) } else { r.u8() });
    }
}

fn tagof(page: Page, op: u8) -> String {
    format!("{}:{:02X}", page.name(), op)
}

/// boundary class of a 16-bit value, for the distinct count
fn cls16(v: u16) -> &'static str {
    match v {
        0 => "0",
        1..=2 => "lo",
        0xFFFD..=0xFFFF => "top",
        0x7F00..=0x80FF => "mid",
        _ => "x",
    }
}

// ---------------------------------------------------------------------------------------------
// C01
// ---------------------------------------------------------------------------------------------
pub fn c01(r: &mut Rng, tier: &str) -> Vec<Case> {
    let n = if quick(tier) { 24 } else { 300 };
    let mut cases = vec![];
    for (page, op) in all_rows() {
        for k in 0..n {
            let mut s = state_for(r, page, op);
            if k % 4 == 1 {
                alias_pc(r, &mut s, page, op);
            }
            maybe_masked(r, &mut s, k);
            let mut c = Case::new(format!("{}/hl{}sp{}k{}", tagof(page, op), cls16(s.pair(H)), cls16(s.sp), k % 4));
            c.key = tagof(page, op);
            let again = if k % 6 == 5 { Some(vary_one(r, &s, page)) } else { None };
            c.push(sbox(s), P_NONE);
            c.push(Cmd::X, p_regs());
            c.push(Cmd::D, p_mem());
            if let Some(s2) = again {
                // second execution on the same CPU object with one input changed
                c.push(Cmd::SR(Box::new(s2)), P_NONE);
                c.push(Cmd::X, p_regs());
                c.push(Cmd::D, p_mem());
            }
            cases.push(c);
        }
    }
    // block repeats with BC = 0 (65,536 iterations), executed from ROM so the opcode survives
    let nb = if quick(tier) { 2 } else { 12 };
    for op in [0xB0u8, 0xB8, 0xB1, 0xB9] {
        for k in 0..nb {
            let mut s = rand_state(r);
            s.seed = SEEDS[1 + (k % 5)];
            s.set_pair(B, 0);
            s.pc = r.u16();
            s.rom = Some((s.pc, s.pc.wrapping_add(1)));
            if s.pc == 0xFFFF {
                s.pc = 0x1000;
                s.rom = Some((0x1000, 0x1001));
            }
            let pc = s.pc;
            s.poke(pc, &[0xED, op]);
            let mut c = Case::new(format!("ED:{:02X}/bc0", op));
            c.key = format!("ED:{:02X}", op);
            c.push(sbox(s), P_NONE);
            c.push(Cmd::X, p_regs());
            c.push(Cmd::D, p_mem());
            cases.push(c);
        }
    }
    // lock-step random programs (random memory is the program), registers re-synchronised each step
    let (np, ns) = if quick(tier) { (60, 120) } else { (2000, 200) };
    for k in 0..np {
        let mut s = rand_state(r);
        s.seed = SEEDS[1 + (k % 5)];
        if k % 3 == 0 {
            let a = r.u16();
            s.rom = Some((a, a.wrapping_add(r.u16() & 0x0FFF)));
        }
        let mut c = Case::new(format!("program/{}", k % 16));
        c.key = "program".into();
        c.push(sbox(s), P_NONE);
        for _ in 0..ns {
            c.push(Cmd::X, p_regs());
            c.push(Cmd::Sync, P_NONE);
        }
        c.push(Cmd::D, p_mem());
        cases.push(c);
    }
    cases
}

// ---------------------------------------------------------------------------------------------
// C02 (the exhaustive sweeps are in sweeps.rs)
// ---------------------------------------------------------------------------------------------
pub fn c02(r: &mut Rng, tier: &str) -> Vec<Case> {
    let n = if quick(tier) { 16 } else { 200 };
    let mut cases = vec![];
    for (page, op) in all_rows() {
        for k in 0..n {
            let mut s = state_for(r, page, op);
            s.regs[F] = if k % 2 == 0 { r.u8() } else { r.pick(&[0x00, 0xFF, 0x01, 0xD7, 0x28]) };
            maybe_masked(r, &mut s, k);
            let mut c = Case::new(format!("{}/f{}", tagof(page, op), s.regs[F] & 1));
            c.key = tagof(page, op);
            let again = if k % 4 == 3 { Some(vary_one(r, &s, page)) } else { None };
            c.push(sbox(s), P_NONE);
            c.push(Cmd::X, Proj { fmask: 0xD7, mode: Mode::Flags, ..NONE });
            if let Some(s2) = again {
                c.push(Cmd::SR(Box::new(s2)), P_NONE);
                c.push(Cmd::X, Proj { fmask: 0xD7, mode: Mode::Flags, ..NONE });
            }
            cases.push(c);
        }
    }
    cases
}

// ---------------------------------------------------------------------------------------------
// C03
// ---------------------------------------------------------------------------------------------
fn is_cond_base(op: u8) -> bool {
    let x = op >> 6;
    let z = op & 7;
    (x == 3 && (z == 0 || z == 2 || z == 4)) || (x == 0 && z == 0 && (op >> 3) >= 2)
}
fn is_call_like(page: Page, op: u8) -> bool {
    page == Page::Base && (op == 0xCD || (op >> 6 == 3 && (op & 7 == 4 || op & 7 == 7)))
}

pub fn c03(r: &mut Rng, tier: &str) -> Vec<Case> {
    let mut cases = vec![];
    let pcs: [u16; 10] = [0x0000, 0x0001, 0x00FE, 0x7FFF, 0x8000, 0xFFFB, 0xFFFC, 0xFFFD, 0xFFFE, 0xFFFF];
    let sps: [u16; 7] = [0x0000, 0x0001, 0x0002, 0x8000, 0xFFFD, 0xFFFE, 0xFFFF];
    let es: [u8; 8] = [0x00, 0x01, 0x7E, 0x7F, 0x80, 0x81, 0xFE, 0xFF];
    for (page, op) in all_rows() {
        let cond = page == Page::Base && is_cond_base(op);
        let rel = page == Page::Base && (op == 0x18 || op == 0x10 || (op & 0xE7) == 0x20);
        let reps = if cond {
            if quick(tier) { 256 } else { 256 * 8 }
        } else if quick(tier) {
            12
        } else {
            96
        };
        for k in 0..reps {
            let mut s = rand_state(r);
            if k % 2 == 0 {
                s.pc = pcs[(k / 2) % pcs.len()];
            }
            if k % 3 == 0 {
                s.sp = sps[(k / 3) % sps.len()];
            }
            if cond {
                s.regs[F] = (k % 256) as u8;
                if op == 0x10 {
                    s.regs[B] = [0, 1, 2, 0xFF][k % 4];
                }
            }
            let e = if rel && !quick(tier) { (k % 256) as u8 } else if rel { es[k % 8] } else { v8(r) };
            let code = encode(page, op, e, v8(r), v8(r));
            s = with_code(s, &code);
            if k % 4 == 3 {
                alias_pc(r, &mut s, page, op);
            }
            maybe_masked(r, &mut s, k);
            let mut c = Case::new(format!("{}/pc{}sp{}f{}", tagof(page, op), cls16(s.pc), cls16(s.sp), k % 2));
            c.key = tagof(page, op);
            let again = if k % 4 == 1 { Some(vary_one(r, &s, page)) } else { None };
            c.push(sbox(s), P_NONE);
            c.push(Cmd::X, Proj { pc: true, sp: true, ..NONE });
            if is_call_like(page, op) {
                c.push(Cmd::D, p_mem());
            }
            if let Some(s2) = again {
                c.push(Cmd::SR(Box::new(s2)), P_NONE);
                c.push(Cmd::X, Proj { pc: true, sp: true, ..NONE });
                if is_call_like(page, op) {
                    c.push(Cmd::D, p_mem());
                }
            }
            cases.push(c);
        }
    }
    // every row followed by (and, where it has operands, operating on) each of the opcodes programs most often
    // have next: an instruction is one instruction whatever comes after it
    for (page, op) in all_rows() {
        for (j, nb) in NEXT_OPS.iter().enumerate() {
            if quick(tier) && (j + op as usize) % 2 == 1 && j >= 8 {
                continue;
            }
            let mut s = state_for(r, page, op);
            followed_by(&mut s, page, *nb);
            maybe_masked(r, &mut s, j);
            let mut c = Case::new(format!("{}/next{}", tagof(page, op), j % 4));
            c.key = tagof(page, op);
            c.push(sbox(s), P_NONE);
            c.push(Cmd::X, Proj { pc: true, sp: true, ..NONE });
            cases.push(c);
        }
    }
    // self-targeting transfers: every pointer, the stacked word and nn equal to pc + {0, 1, 2, -1}
    for (page, op) in all_rows() {
        for (j, delta) in [0u16, 1, 2, 0xFFFF].iter().enumerate() {
            let mut s = state_for(r, page, op);
            if j % 2 == 1 {
                s.pc = r.pick(&[0xFFFEu16, 0xFFFF, 0x0000, 0x7FFF]);
                let code = encode(page, op, v8(r), v8(r), v8(r));
                s = with_code(s, &code);
            }
            s.regs[F] = [0x00u8, 0xFF, 0x45, 0x80][j];
            self_target(&mut s, page, *delta);
            let mut c = Case::new(format!("{}/self{}", tagof(page, op), j));
            c.key = tagof(page, op);
            c.push(sbox(s), P_NONE);
            // a transfer only transfers: it must not halt or otherwise change how the next steps run;
            // an interrupt arriving afterwards pushes the address control has reached
            let pj = Proj { pc: true, sp: true, ctl: true, ..NONE };
            c.push(Cmd::X, pj);
            c.push(Cmd::N, P_NONE);
            c.push(Cmd::X, pj);
            c.push(Cmd::D, p_mem());
            cases.push(c);
        }
    }
    // call / return nestings
    let nn = if quick(tier) { 200 } else { 5000 };
    for k in 0..nn {
        let depth = 1 + (r.below(16) as usize);
        let mut s = rand_state(r);
        s.seed = 0;
        s.sp = if k % 5 == 0 { r.pick(&[0x0000u16, 0x0001, 0xFFFF, 0x8000]) } else { 0xE000 | (r.u16() & 0x0FFF) };
        // subroutine i at 0x0100 * (i+1): CALL next ; RET   (innermost: RET)
        let mut addr = |i: usize| -> u16 { 0x0100u16.wrapping_mul(i as u16 + 1) };
        s.pc = addr(0);
        for i in 0..depth {
            let a = addr(i);
            let nx = addr(i + 1);
            let callop = if i % 3 == 1 { 0xCC } else { 0xCD }; // CALL Z when Z set
            s.poke(a, &[callop, nx as u8, (nx >> 8) as u8, if i % 4 == 2 { 0xC8 } else { 0xC9 }]);
        }
        s.poke(addr(depth), &[0xC9]);
        s.regs[F] |= 0x40; // Z set: CALL Z / RET Z taken
        let mut c = Case::new(format!("nest/d{}sp{}", depth, cls16(s.sp)));
        c.key = "nest".into();
        c.push(sbox(s), P_NONE);
        for _ in 0..(2 * depth + 1) {
            c.push(Cmd::X, Proj { pc: true, sp: true, ..NONE });
        }
        c.push(Cmd::D, p_mem());
        let _ = &mut addr;
        cases.push(c);
    }
    cases
}

// ---------------------------------------------------------------------------------------------
// C04
// ---------------------------------------------------------------------------------------------
pub fn c04(r: &mut Rng, tier: &str) -> Vec<Case> {
    let n = if quick(tier) { 16 } else { 256 };
    let mut cases = vec![];
    let timing = Proj { mode: Mode::Timing, ..NONE };
    // the recorded finding (known_findings.txt) is replayed first on every run: each block repeat with three
    // iterations, where Zilog publishes 21 + 21 + 16 T-states
    for op in [0xB0u8, 0xB8, 0xB1, 0xB9] {
        let mut s = St::default();
        s.pc = 0x0100;
        s.sp = 0xFF00;
        s.set_pair(B, 3);
        s.set_pair(H, 0x4000);
        s.set_pair(D, 0x5000);
        s.regs[A] = 0xA5;
        s.poke(0x0100, &[0xED, op]);
        let mut c = Case::new(format!("ED:{:02X}/finding", op));
        c.key = format!("ED:{:02X}", op);
        c.push(sbox(s), P_NONE);
        c.push(Cmd::X, timing);
        cases.push(c);
    }
    for (page, op) in all_rows() {
        let cond = page == Page::Base && is_cond_base(op);
        let n = if cond { n.max(256) } else { n };
        for k in 0..n {
            let mut s = state_for(r, page, op);
            if cond {
                // both outcomes of every condition: every flag byte; DJNZ: the B values around zero
                s.regs[F] = (k % 256) as u8;
                if op == 0x10 {
                    s.regs[B] = [0u8, 1, 2, 0xFF, 0x80, 0x7F][k % 6];
                }
            }
            maybe_masked(r, &mut s, k);
            if is_block_repeat(page, op) {
                s.set_pair(B, [1u16, 2, 3, 7][k % 4]);
                if op & 1 == 1 {
                    // compares: make sure no early match so that the count is BC
                    s.regs[A] = 0xA5;
                    s.seed = 0;
                }
            }
            let mut c = Case::new(format!("{}/f{:02X}", tagof(page, op), s.regs[F] & 0xC5));
            c.key = tagof(page, op);
            c.push(sbox(s), P_NONE);
            c.push(Cmd::X, timing);
            cases.push(c);
        }
    }
    // the count of a row does not depend on what the same CPU object executed before it: every prefixed
    // row after the row with the same last opcode byte on each other prefixed page, and every row after
    // some unrelated rows
    let pre = [Page::CB, Page::ED, Page::DD, Page::FD, Page::DDCB, Page::FDCB];
    for (page, op) in all_rows() {
        let mut prevs: Vec<(Page, u8)> = vec![];
        if page != Page::Base {
            for &q in &pre {
                if q != page {
                    prevs.push((q, op));
                }
            }
        }
        let extra = if quick(tier) { 2 } else { 12 };
        for _ in 0..extra {
            let q = if r.below(3) == 0 { Page::Base } else { pre[r.below(6) as usize] };
            let mut o = r.u8();
            if q == Page::Base && matches!(o, 0xCB | 0xDD | 0xED | 0xFD | 0x76) {
                o = 0x00;
            }
            prevs.push((q, o));
        }
        for (j, (q, o)) in prevs.into_iter().enumerate() {
            let mut s0 = state_for(r, q, o);
            s0.halt = false;
            s0.int = None;
            s0.nmi = false;
            if is_block_repeat(q, o) {
                s0.set_pair(B, 1);
            }
            let mut s = state_for(r, page, op);
            s.top = s0.top;
            if is_block_repeat(page, op) {
                s.set_pair(B, [1u16, 2, 3][j % 3]);
                if op & 1 == 1 {
                    s.regs[A] = 0xA5;
                    s.seed = 0;
                }
            }
            let mut c = Case::new(format!("{}/after{}", tagof(page, op), if q == Page::Base { 0 } else { 1 }));
            c.key = tagof(page, op);
            c.push(sbox(s0), P_NONE);
            c.push(Cmd::X, P_NONE);
            c.push(Cmd::SR(Box::new(s)), P_NONE);
            c.push(Cmd::X, timing);
            cases.push(c);
        }
    }
    // halted steps
    for k in 0..(if quick(tier) { 64 } else { 2000 }) {
        let mut s = rand_state(r);
        s.halt = true;
        s.iff1 = k % 2 == 0;
        s.int = if k % 4 == 1 { Some(r.u8()) } else { None };
        let mut c = Case::new(format!("halted/{}", k % 4));
        c.key = "halted".into();
        c.push(sbox(s), P_NONE);
        for _ in 0..3 {
            c.push(Cmd::X, timing);
        }
        cases.push(c);
    }
    cases
}

// ---------------------------------------------------------------------------------------------
// C05
// ---------------------------------------------------------------------------------------------
pub fn c05(r: &mut Rng, tier: &str) -> Vec<Case> {
    let n = if quick(tier) { 8 } else { 64 };
    let mut cases = vec![];
    let pj = Proj { r: false, dbg: 1, mode: Mode::Unknown, ..FULL };
    // executed "as the instruction it encodes" also when it targets itself: PC after the step
    for (page, op) in all_rows() {
        for (j, delta) in [0u16, 1, 0xFFFF].iter().enumerate() {
            let mut s = state_for(r, page, op);
            s.regs[F] = [0x00u8, 0xFF, 0x45][j];
            self_target(&mut s, page, *delta);
            let mut c = Case::new(format!("{}/self{}", tagof(page, op), j));
            c.key = tagof(page, op);
            c.push(sbox(s), P_NONE);
            c.push(Cmd::X, Proj { pc: true, ..NONE });
            cases.push(c);
        }
    }
    for (page, op) in all_rows() {
        for k in 0..n {
            let mut s = state_for(r, page, op);
            s.dbg = [k % 2 == 0, k % 4 == 3, false, false];
            s.stale = k % 3 == 0;
            if k % 4 == 2 {
                alias_pc(r, &mut s, page, op);
            }
            maybe_masked(r, &mut s, k + 2);
            if matches!(page, Page::DDCB | Page::FDCB) {
                let d = [0x00u8, 0x7F, 0x80, 0xFF][k % 4];
                let pc = s.pc;
                s.poke(pc.wrapping_add(2), &[d]);
            }
            let mut c = Case::new(format!("{}/dbg{}", tagof(page, op), k % 2));
            c.key = tagof(page, op);
            c.push(sbox(s), P_NONE);
            c.push(Cmd::X, pj);
            c.push(Cmd::D, p_mem());
            cases.push(c);
        }
    }
    cases
}

// ---------------------------------------------------------------------------------------------
// C06
// ---------------------------------------------------------------------------------------------
const EDGE_ADDR: [u16; 12] =
    [0x0000, 0x0001, 0x007F, 0x0080, 0xFF7F, 0xFF80, 0xFFFB, 0xFFFC, 0xFFFD, 0xFFFE, 0xFFFF, 0x7FFF];
const TOPS: [u16; 7] = [0, 1, 0xFF, 0x7FFF, 0x8000, 0xFFFE, 0xFFFF];

pub fn c06(r: &mut Rng, tier: &str) -> Vec<Case> {
    let n = if quick(tier) { 40 } else { 600 };
    let mut cases = vec![];
    for (page, op) in all_rows() {
        for k in 0..n {
            let mut s = rand_state(r);
            s.top = TOPS[k % TOPS.len()];
            // one or two registers at an edge
            let which = k % 8;
            let e = EDGE_ADDR[(k / 8) % EDGE_ADDR.len()];
            match which {
                0 => s.pc = e,
                1 => s.sp = e,
                2 => s.set_pair(IXH, e),
                3 => s.set_pair(IYH, e),
                4 => s.set_pair(H, e),
                5 => {
                    s.set_pair(B, e);
                    s.set_pair(D, r.pick(&EDGE_ADDR))
                }
                6 => {
                    s.pc = e;
                    s.sp = r.pick(&EDGE_ADDR)
                }
                _ => {
                    s.pc = r.pick(&EDGE_ADDR);
                    s.set_pair(IXH, e);
                    s.set_pair(IYH, e)
                }
            }
            if is_block_repeat(page, op) {
                s.set_pair(B, (r.below(6) + 1) as u16);
            }
            let d = r.pick(&[0x00u8, 0x01, 0x7F, 0x80, 0xFF]);
            let nn = r.pick(&EDGE_ADDR);
            let code = match page {
                Page::Base => encode(page, op, nn as u8, (nn >> 8) as u8, v8(r)),
                Page::ED => encode(page, op, nn as u8, (nn >> 8) as u8, v8(r)),
                _ => encode(page, op, d, v8(r), v8(r)),
            };
            s = with_code(s, &code);
            if k % 9 == 4 {
                alias_pc(r, &mut s, page, op);
            }
            s.dbg = [k % 2 == 0, k % 5 == 0, false, false];
            let mut c = Case::new(format!("{}/e{}t{}", tagof(page, op), which, k % TOPS.len()));
            c.key = tagof(page, op);
            c.push(sbox(s), P_NONE);
            c.push(Cmd::X, Proj { regs: true, sp: true, pc: true, ..NONE });
            c.push(Cmd::D, p_mem());
            cases.push(c);
        }
    }
    // leaving a HALT at the edges of the address space (the address after the HALT wraps)
    for (j, pc) in [0xFFFFu16, 0xFFFE, 0x0000, 0x7FFF, 0x00FF].iter().enumerate() {
        for top in [0xFFFFu16, 0x7FFF] {
            for kind in 0..4 {
                let mut s = rand_state(r);
                s.top = top;
                s.pc = *pc;
                s.halt = true;
                s.im = (kind % 3) as u8;
                s.sp = r.pick(&EDGE_ADDR);
                match kind {
                    0 => s.nmi = true,
                    _ => {
                        s.iff1 = true;
                        s.int = Some(r.pick(&RST_OPS));
                    }
                }
                let p = s.pc;
                s.poke(p, &[0x76]);
                let mut c = Case::new(format!("wake/pc{}k{}t{}", j, kind, cls16(top)));
                c.key = "wake".into();
                c.push(sbox(s), P_NONE);
                c.push(Cmd::X, Proj { regs: true, sp: true, pc: true, ..NONE });
                c.push(Cmd::D, p_mem());
                cases.push(c);
            }
        }
    }
    // "every machine state" includes the interrupt machinery: every combination of IFF1, IFF2, mode, HALT,
    // pending NMI and pending request (none / RST byte / any byte), with PC, SP and I at the edges
    {
        let reps = if quick(tier) { 3 } else { 40 };
        for combo in 0..(2 * 2 * 3 * 2 * 2 * 3) {
            for k in 0..reps {
                let mut s = rand_state(r);
                s.top = TOPS[(combo + k) % TOPS.len()];
                s.iff1 = combo & 1 != 0;
                s.iff2 = combo & 2 != 0;
                s.im = ((combo / 4) % 3) as u8;
                s.halt = (combo / 12) % 2 != 0;
                s.nmi = (combo / 24) % 2 != 0;
                let ik = (combo / 48) % 3;
                s.int = match ik {
                    0 => None,
                    1 => Some(r.pick(&RST_OPS)),
                    _ => Some(r.pick(&[0x00u8, 0xFF, 0xFE, 0x80, 0x7F, 0x01])),
                };
                s.regs[I] = r.pick(&[0x00u8, 0xFF, 0x80, 0x7F]);
                match k % 3 {
                    0 => s.pc = r.pick(&EDGE_ADDR),
                    1 => s.sp = r.pick(&EDGE_ADDR),
                    _ => {
                        s.pc = r.pick(&EDGE_ADDR);
                        s.sp = r.pick(&EDGE_ADDR);
                    }
                }
                // mode 0 with a byte that is not a restart executes that byte as an instruction whose operands
                // come from memory at PC: only "returns normally" is compared there
                let free = s.im == 0 && ik == 2 && s.iff1 && !s.nmi;
                let pj = if free { P_NONE } else { Proj { regs: true, sp: true, pc: true, ..NONE } };
                let mut c = Case::new(format!("ctl/{}h{}n{}i{}m{}", combo & 3, s.halt as u8, s.nmi as u8, ik, s.im));
                c.key = "ctl".into();
                c.push(sbox(s), P_NONE);
                c.push(Cmd::X, pj);
                c.push(Cmd::Sync, P_NONE);
                c.push(Cmd::X, pj);
                cases.push(c);
            }
        }
    }
    // disassembler at the edges of every top, every opcode (and every CB row)
    for top in TOPS {
        for op in 0..=255u8 {
            for (j, a) in EDGE_ADDR.iter().enumerate() {
                if quick(tier) && (op as usize + j) % 3 != 0 {
                    continue;
                }
                let mut s = rand_state(r);
                s.top = top;
                s.seed = SEEDS[1 + (op as usize % 5)];
                s.poke(*a, &[op, v8(r), v8(r)]);
                let mut c = Case::new(format!("dasm:{:02X}/a{}t{}", op, j, top));
                c.key = format!("dasm:{:02X}", op);
                c.push(sbox(s), P_NONE);
                c.push(Cmd::DA(*a), p_mem());
                cases.push(c);
            }
        }
    }
    // every bus accessor at the edges of every top
    for top in TOPS {
        let mut addrs: Vec<u16> = EDGE_ADDR.to_vec();
        for dlt in 0..4u16 {
            addrs.push(top.wrapping_sub(dlt));
            addrs.push(top.wrapping_add(dlt));
        }
        let mut s = St::default();
        s.top = top;
        s.seed = SEEDS[2];
        let mut c = Case::new(format!("bus/t{}", top));
        c.key = "bus".into();
        c.push(sbox(s), P_NONE);
        for a in addrs {
            for cmd in [Cmd::RB(a), Cmd::RW(a), Cmd::RLW(a), Cmd::RLD(a), Cmd::WB(a, 0x5A), Cmd::WW(a, 0xBEEF), Cmd::RW(a)] {
                c.push(cmd, p_mem());
            }
        }
        c.push(Cmd::D, p_mem());
        cases.push(c);
    }
    cases
}

// ---------------------------------------------------------------------------------------------
// C07
// ---------------------------------------------------------------------------------------------
/// run the real CPU on `s` (ROM ignored) to learn which addresses the step writes
pub fn probe_writes(s: &St) -> Vec<u16> {
    let mut t = s.clone();
    t.rom = None;
    let r = std::panic::catch_unwind(|| {
        let mut imp = Imp::new("/tmp");
        imp.exec(&Cmd::S(Box::new(t)));
        imp.exec(&Cmd::X);
        imp.exec(&Cmd::D)
    });
    match r {
        Ok(d) => d.split(' ').skip(2).filter_map(|t| u16::from_str_radix(t.split(':').next()?, 16).ok()).collect(),
        Err(_) => vec![],
    }
}

pub fn c07(r: &mut Rng, tier: &str) -> Vec<Case> {
    let mut cases = vec![];
    // (a) exhaustive small buses: every window, every address, both widths
    let maxtop = if quick(tier) { 6 } else { 12 };
    for top in 0..=maxtop as u16 {
        for rs in 0..=(top + 1) {
            for re in 0..=(top + 1) {
                let mut s = St::default();
                s.top = top;
                s.seed = SEEDS[3];
                s.rom = Some((rs, re));
                let mut c = Case::new(format!("small/t{}w{}", top, (rs <= re) as u8));
                c.key = "bus-small".into();
                c.push(sbox(s), P_NONE);
                let mut addrs: Vec<u16> = (0..=top + 2).collect();
                addrs.push(0xFFFF);
                addrs.push(0xFFFE);
                for a in addrs {
                    c.push(Cmd::WB(a, 0xA5 ^ a as u8), p_mem());
                    c.push(Cmd::D, p_mem());
                    c.push(Cmd::WW(a, 0x5AC3 ^ a), p_mem());
                    c.push(Cmd::D, p_mem());
                }
                cases.push(c);
            }
        }
    }
    // (b) 64 KiB: windows with ends in the boundary set, writes around both ends
    let ends: [u16; 9] = [0x0000, 0x0001, 0x00FF, 0x7FFF, 0x8000, 0xF000, 0xFFFD, 0xFFFE, 0xFFFF];
    for &rs in &ends {
        for &re in &ends {
            for top in [0xFFFFu16, 0x7FFF, 0xFFFE] {
                let mut s = St::default();
                s.top = top;
                s.seed = SEEDS[4];
                s.rom = Some((rs, re));
                let mut c = Case::new(format!("big/s{}e{}t{}", cls16(rs), cls16(re), cls16(top)));
                c.key = "bus-big".into();
                c.push(sbox(s), P_NONE);
                for base in [rs, re] {
                    for dlt in [-2i32, -1, 0, 1, 2] {
                        let a = (base as i32 + dlt) as u16;
                        c.push(Cmd::WB(a, 0x3C), p_mem());
                        c.push(Cmd::WW(a, 0x9966), p_mem());
                    }
                }
                c.push(Cmd::D, p_mem());
                cases.push(c);
            }
        }
    }
    // (c) every encoding: probe its write set, then put the ROM ends around it
    let n = if quick(tier) { 6 } else { 60 };
    for (page, op) in all_rows() {
        for k in 0..n {
            let mut s = state_for(r, page, op);
            if k % 3 == 2 {
                s = with_ctl(r, s);
                s.iff1 = true;
            }
            let w = probe_writes(&s);
            if w.is_empty() {
                if k > 0 {
                    continue;
                }
            }
            let lo = w.iter().copied().min().unwrap_or(s.sp.wrapping_sub(2));
            let hi = w.iter().copied().max().unwrap_or(lo);
            // alignments of the window against the written range
            let wins: [(u16, u16); 6] = [
                (lo, hi),
                (lo.wrapping_add(1), lo.wrapping_add(0x20)),
                (lo.wrapping_sub(0x20), lo),
                (hi, hi.wrapping_add(0x10)),
                (lo.wrapping_sub(0x10), hi.wrapping_sub(1)),
                (lo.wrapping_sub(1), hi.wrapping_add(1)),
            ];
            for (j, win) in wins.iter().enumerate() {
                if quick(tier) && (j + k) % 2 == 1 {
                    continue;
                }
                let mut t = s.clone();
                t.rom = Some(*win);
                let mut c = Case::new(format!("{}/w{}n{}", tagof(page, op), j, w.len().min(3)));
                c.key = tagof(page, op);
                c.push(sbox(t), P_NONE);
                c.push(Cmd::X, P_NONE);
                c.push(Cmd::D, p_mem());
                cases.push(c);
            }
        }
    }
    // (f) block transfers used as fills / copies running across a ROM window (lengths 1..600)
    let nf = if quick(tier) { 240 } else { 6000 };
    for k in 0..nf {
        let mut s = rand_state(r);
        s.seed = SEEDS[1 + k % 5];
        let op = [0xB0u8, 0xB8][k % 2];
        let bc: u16 = match k % 4 {
            0 => 256 + (r.u16() & 0xFF),
            1 => 300 + (r.u16() & 0xFF),
            2 => 1 + (r.u16() & 0x3F),
            _ => 0x100,
        };
        let hl = 0x2000u16.wrapping_add(r.u16() & 0x7FFF);
        s.set_pair(H, hl);
        s.set_pair(B, bc);
        let de = if op == 0xB0 { hl.wrapping_add(1) } else { hl.wrapping_sub(1) };
        s.set_pair(D, if k % 8 == 7 { hl.wrapping_add(0x1000) } else { de });
        let fill = if k % 3 == 0 { 0x00 } else { r.u8() };
        s.poke(hl, &[fill]);
        // the window lies inside the destination block
        let off = r.below(bc as u64) as u16;
        let a = if op == 0xB0 { s.pair(D).wrapping_add(off) } else { s.pair(D).wrapping_sub(off) };
        let len = r.below(40) as u16;
        s.rom = Some(if op == 0xB0 { (a, a.wrapping_add(len)) } else { (a.wrapping_sub(len), a) });
        s.pc = 0x0100;
        s.poke(0x0100, &[0xED, op]);
        let mut c = Case::new(format!("fill/{:02X}bc{}f{}", op, if bc < 256 { "s" } else { "l" }, (fill == 0) as u8));
        c.key = format!("ED:{:02X}", op);
        c.push(sbox(s), P_NONE);
        c.push(Cmd::X, P_NONE);
        c.push(Cmd::D, p_mem());
        cases.push(c);
    }
    // (e) histories that declare the range again: stores, a new declaration covering what was RAM
    // (and uncovering what was ROM), more stores; bus level and through CPU stores
    let nre = if quick(tier) { 300 } else { 6000 };
    for k in 0..nre {
        let mut s = rand_state(r);
        s.seed = SEEDS[1 + k % 5];
        s.top = if k % 3 == 0 { 0x00FF } else { 0xFFFF };
        let base = if s.top == 0xFFFF { r.u16() & 0xFE00 } else { 0 };
        let two = s.top == 0xFFFF;
        // ranges and stores live in two neighbouring 256-byte pages
        let span = move |r: &mut Rng| -> (u16, u16) {
            let a = base.wrapping_add(r.u16() & if two { 0x1FF } else { 0xFF });
            let len = match r.below(3) { 0 => r.u16() & 0x3F, 1 => 0xFF, _ => r.u16() & 0x1FF };
            (a, a.wrapping_add(len))
        };
        let anyaddr = move |r: &mut Rng| -> u16 { base.wrapping_add(r.u16() & if two { 0x1FF } else { 0xFF }) };
        s.rom = Some(span(r));
        // a little program of stores through HL / the stack in that page
        s.pc = base.wrapping_add(0x80);
        s.sp = base.wrapping_add(0x70 + (r.u16() & 0x0F));
        s.set_pair(H, base.wrapping_add(r.u16() & 0xFF));
        let mut c = Case::new(format!("redeclare/{}", k % 8));
        c.key = "redeclare".into();
        c.push(sbox(s), P_NONE);
        for j in 0..24 {
            match r.below(6) {
                0 => {
                    let (a, b) = span(r);
                    c.push(Cmd::ROM(a, b), P_NONE);
                }
                1 => {
                    c.push(Cmd::WW(anyaddr(r), r.u16()), P_NONE);
                }
                2 => {
                    // LD (HL),A at pc via a host-installed opcode is itself a write; use the stack: CALL-like push by NMI
                    c.push(Cmd::N, P_NONE);
                    c.push(Cmd::X, P_NONE);
                    c.push(Cmd::Sync, P_NONE);
                }
                _ => {
                    c.push(Cmd::WB(anyaddr(r), r.u8()), P_NONE);
                }
            }
            if j % 3 == 2 {
                c.push(Cmd::D, p_mem());
            }
        }
        c.push(Cmd::D, p_mem());
        cases.push(c);
    }
    // (d) random programs over a ROM-mapped image, with interrupts
    let (np, ns) = if quick(tier) { (40, 150) } else { (1000, 500) };
    for k in 0..np {
        let mut s = rand_state(r);
        s.seed = SEEDS[1 + k % 5];
        let a = r.u16();
        s.rom = Some((a, a.wrapping_add(r.u16() & 0x3FFF)));
        let mut c = Case::new(format!("program/{}", k % 16));
        c.key = "program".into();
        c.push(sbox(s), P_NONE);
        for j in 0..ns {
            if j % 17 == 5 {
                c.push(Cmd::I(r.pick(&RST_OPS)), P_NONE);
            }
            if j % 41 == 7 {
                c.push(Cmd::N, P_NONE);
            }
            if j % 29 == 3 {
                c.push(Cmd::WW(r.u16(), r.u16()), P_NONE);
            }
            c.push(Cmd::X, P_NONE);
            c.push(Cmd::Sync, P_NONE);
        }
        c.push(Cmd::D, p_mem());
        cases.push(c);
    }
    cases
}

// ---------------------------------------------------------------------------------------------
// C08
// ---------------------------------------------------------------------------------------------
pub fn c08(r: &mut Rng, tier: &str) -> Vec<Case> {
    let mut cases = vec![];
    let tops: Vec<u16> = if quick(tier) {
        vec![0, 1, 2, 3, 0xFF, 0x100, 0x7FFF, 0x8000, 0xFFFE, 0xFFFF]
    } else {
        let mut v: Vec<u16> = vec![0, 1, 2, 3, 0xFF, 0x100, 0x7FFF, 0x8000, 0xFFFE, 0xFFFF];
        for _ in 0..40 {
            v.push(r.u16());
        }
        v
    };
    let words: [u16; 5] = [0x0000, 0x00FF, 0xFF00, 0x1234, 0xFFFF];
    for &top in &tops {
        // which addresses
        let mut addrs: Vec<u16> = vec![];
        if quick(tier) {
            for a in 0..0x180u32 {
                addrs.push(a as u16);
                addrs.push((0xFFFFu32 - a) as u16);
                addrs.push(top.wrapping_sub(0xC0).wrapping_add(a as u16));
                addrs.push(0x7F40u16.wrapping_add(a as u16));
            }
            let mut a = 0u32;
            while a < 0x10000 {
                addrs.push(a as u16);
                a += 61;
            }
        } else {
            addrs = (0..=0xFFFFu32).map(|a| a as u16).collect();
        }
        for chunk in addrs.chunks(256) {
            let mut s = St::default();
            s.top = top;
            s.seed = SEEDS[1 + (chunk[0] as usize % 5)];
            let mut c = Case::new(format!("t{:04X}/a{:04X}", top, chunk[0]));
            c.key = "bus".into();
            c.push(sbox(s), P_NONE);
            for (j, &a) in chunk.iter().enumerate() {
                let w = words[j % 5];
                c.push(Cmd::RB(a), p_mem());
                c.push(Cmd::WB(a, 0xC3 ^ (j as u8)), p_mem());
                c.push(Cmd::RB(a), p_mem());
                c.push(Cmd::RW(a), p_mem());
                c.push(Cmd::RLW(a), p_mem());
                c.push(Cmd::RLD(a), p_mem());
                c.push(Cmd::WW(a, w), p_mem());
                c.push(Cmd::RW(a), p_mem());
                c.push(Cmd::RB(a.wrapping_add(1)), p_mem());
            }
            c.push(Cmd::D, p_mem());
            cases.push(c);
        }
    }
    // "outside ROM": a window declared, moved, shrunk or re-declared through the public call; stores
    // around both ends of the present and of every earlier window, and around the top address
    let nw = if quick(tier) { 400 } else { 8000 };
    for k in 0..nw {
        let top = tops[k % tops.len()];
        let mut s = St::default();
        s.top = top;
        s.seed = SEEDS[1 + k % 5];
        let mut c = Case::new(format!("window/t{}/{}", cls16(top), k % 8));
        c.key = "bus".into();
        c.push(sbox(s), P_NONE);
        let mut marks: Vec<u16> = vec![0, top, top.wrapping_add(1), 0xFFFF];
        for step in 0..4 {
            let (a, b) = match (k / 10 + step) % 5 {
                0 => {
                    let a = top.wrapping_sub(r.u16() & 0x3FF);
                    (a, top) // window reaching the top address
                }
                1 => {
                    let a = r.u16();
                    (a, 0xFFFF) // window reaching the end of the address space
                }
                2 => {
                    let a = (r.u16() as u32 % (top as u32 + 1)) as u16;
                    (a, a.wrapping_add(r.u16() & 0xFF))
                }
                3 => (0, r.u16() & 0x1FF),
                _ => {
                    let a = r.u16();
                    (a, a.wrapping_add(r.u16() & 0x7FF))
                }
            };
            c.push(Cmd::ROM(a, b), P_NONE);
            for m in [a, b] {
                marks.push(m);
            }
            for (j, &m) in marks.clone().iter().enumerate() {
                for dlt in [-2i32, -1, 0, 1, 2] {
                    let x = (m as i32 + dlt) as u16;
                    if (j + step) % 2 == 0 {
                        c.push(Cmd::WB(x, 0x5A ^ (j as u8) ^ ((step as u8) << 4)), p_mem());
                        c.push(Cmd::RB(x), p_mem());
                    } else {
                        c.push(Cmd::WW(x, 0xA5C3 ^ ((j as u16) << 3) ^ step as u16), p_mem());
                        c.push(Cmd::RW(x), p_mem());
                    }
                }
            }
            c.push(Cmd::D, p_mem());
        }
        cases.push(c);
    }
    if !quick(tier) {
        // every size at the boundary addresses
        for top in 0..=0xFFFFu32 {
            let top = top as u16;
            let mut s = St::default();
            s.top = top;
            s.seed = SEEDS[5];
            let mut c = Case::new(format!("everysize/{}", cls16(top)));
            c.key = "bus".into();
            c.push(sbox(s), P_NONE);
            for dlt in [-2i32, -1, 0, 1, 2] {
                for base in [top, 0u16, 0xFFFF] {
                    let a = (base as i32 + dlt) as u16;
                    c.push(Cmd::WW(a, 0xA55A), p_mem());
                    c.push(Cmd::RW(a), p_mem());
                    c.push(Cmd::RLD(a), p_mem());
                }
            }
            c.push(Cmd::D, p_mem());
            cases.push(c);
        }
    }
    cases
}

// ---------------------------------------------------------------------------------------------
// C09
// ---------------------------------------------------------------------------------------------
pub fn c09(r: &mut Rng, tier: &str) -> Vec<Case> {
    let mut cases = vec![];
    let full = Proj { r: true, ..FULL };
    // accessor round trips, every value of every pair
    let vals: Vec<u16> = if quick(tier) {
        let mut v: Vec<u16> = (0..=0xFFFFu32).step_by(7).map(|x| x as u16).collect();
        v.extend_from_slice(&EDGE16);
        v
    } else {
        (0..=0xFFFFu32).map(|x| x as u16).collect()
    };
    for which in 0..6u8 {
        for chunk in vals.chunks(512) {
            let s = rand_state(r);
            let mut c = Case::new(format!("pair{}/{}", which, cls16(chunk[0])));
            c.key = format!("pair{}", which);
            c.push(sbox(s), P_NONE);
            for &v in chunk {
                c.push(Cmd::SetPair(which, v), full);
            }
            cases.push(c);
        }
    }
    // AF transport: PUSH AF ; POP AF / EX AF,AF' / EXX for every AF value
    let afs: Vec<u16> = if quick(tier) { (0..=0xFFFFu32).step_by(5).map(|x| x as u16).collect() } else { (0..=0xFFFFu32).map(|x| x as u16).collect() };
    for &af in &afs {
        let mut s = rand_state(r);
        s.seed = 0;
        s.regs[A] = (af >> 8) as u8;
        s.regs[F] = af as u8;
        s.pc = 0x0100;
        s.sp = 0x8000;
        // PUSH AF ; POP BC ; PUSH BC ; POP AF ; EX AF,AF' ; EXX ; EX AF,AF'
        s.poke(0x0100, &[0xF5, 0xC1, 0xC5, 0xF1, 0x08, 0xD9, 0x08]);
        let mut c = Case::new(format!("af/{:02X}", af & 0xFF));
        c.key = "af".into();
        c.push(sbox(s), P_NONE);
        for _ in 0..7 {
            c.push(Cmd::X, full);
        }
        c.push(Cmd::D, p_mem());
        cases.push(c);
    }
    cases
}

// ---------------------------------------------------------------------------------------------
// C10
// ---------------------------------------------------------------------------------------------
pub fn c10(r: &mut Rng, tier: &str) -> Vec<Case> {
    let n = if quick(tier) { 48 } else { 1500 };
    let mut cases = vec![];
    // dbg excluded: the diagnostic text shows the prefix byte itself
    let pj = Proj { r: false, dbg: 0, ..FULL };
    for (pa, pb) in [(Page::DD, Page::FD), (Page::DDCB, Page::FDCB)] {
        for op in 0..=255u8 {
            if !is_row(pa, op) {
                continue;
            }
            for k in 0..n {
                let mut s = state_for(r, pa, op);
                if k % 4 == 0 {
                    let e = r.pick(&EDGE16);
                    s.set_pair(IXH, e);
                }
                if k % 5 == 0 {
                    let d = r.pick(&[0x00u8, 0x01, 0x7F, 0x80, 0xFF]);
                    let pc = s.pc;
                    s.poke(pc.wrapping_add(2), &[d]);
                }
                if k % 6 == 5 {
                    // "every machine state" includes an accepted request: the same request in both twins
                    s.iff1 = true;
                    // (modes 0 and 1: in mode 2 the first handler instruction is arbitrary code that may read the prefix byte)
                    s.im = ((k / 6) % 2) as u8;
                    s.int = Some(r.pick(&[0xDDu8, 0xFD, 0xCB, 0xED, 0xC7, 0xFF, 0x00]));
                }
                // the two forms differ in the prefix byte itself: keep data accesses away from it
                {
                    let pc = s.pc;
                    let d = s.peek(pc.wrapping_add(2)) as i8 as i16 as u16;
                    let nn = s.peek(pc.wrapping_add(2)) as u16 | (s.peek(pc.wrapping_add(3)) as u16) << 8;
                    let near = |a: u16| a.wrapping_sub(pc).wrapping_add(2) < 5;
                    if near(s.pair(IXH).wrapping_add(d)) || near(s.sp) || near(s.sp.wrapping_sub(2)) || near(nn) {
                        continue;
                    }
                }
                let mut t = s.clone();
                let (ix, iy) = (s.pair(IXH), s.pair(IYH));
                t.set_pair(IXH, iy);
                t.set_pair(IYH, ix);
                let b0 = if pb == Page::FD || pb == Page::FDCB { 0xFD } else { 0xDD };
                let pc = t.pc;
                t.poke(pc, &[b0]);
                let mut c = Case::new(format!("{}/ix{}", tagof(pa, op), cls16(ix)));
                c.key = tagof(pa, op);
                // the property is the relation itself, evaluated on the implementation; how each
                // form behaves on its own is C01-C04's business
                c.push(sbox(s), P_NONE);
                let x1 = c.push(Cmd::X, P_NONE);
                let d1 = c.push(Cmd::D, P_NONE);
                c.push(sbox(t), P_NONE);
                let x2 = c.push(Cmd::X, P_NONE);
                let d2 = c.push(Cmd::D, P_NONE);
                c.rels.push(Rel { a: x1, b: x2, proj: pj, swap_xy: true, what: "FD form = DD form with IX and IY exchanged" });
                c.rels.push(Rel { a: d1, b: d2, proj: p_mem(), swap_xy: false, what: "same memory effect" });
                // the same pair once more on the same CPU objects, at the same address with the same index
                // registers, after one thing changed (displacement byte, last operand byte, the cell addressed, a flag)
                if k % 2 == 1 {
                    let mut s2 = match &c.cmds[0] { Cmd::S(b) => (**b).clone(), _ => unreachable!() };
                    let pc = s2.pc;
                    let ok = match k % 8 {
                        1 => {
                            let d = s2.peek(pc.wrapping_add(2)).wrapping_add(1 + (r.u8() & 0x3F));
                            s2.poke(pc.wrapping_add(2), &[d]);
                            true
                        }
                        3 => {
                            let a = s2.pair(IXH).wrapping_add(s2.peek(pc.wrapping_add(2)) as i8 as i16 as u16);
                            let v = s2.peek(a) ^ 0xFF;
                            s2.poke(a, &[v]);
                            true
                        }
                        5 => {
                            s2.regs[F] ^= 0xFF;
                            s2.regs[A] = s2.regs[A].wrapping_add(0x55);
                            true
                        }
                        _ => {
                            let v = s2.peek(pc.wrapping_add(3)).wrapping_add(1);
                            if pa == Page::DD { s2.poke(pc.wrapping_add(3), &[v]); }
                            true
                        }
                    };
                    let d = s2.peek(pc.wrapping_add(2)) as i8 as i16 as u16;
                    let nn = s2.peek(pc.wrapping_add(2)) as u16 | (s2.peek(pc.wrapping_add(3)) as u16) << 8;
                    let near = |a: u16| a.wrapping_sub(pc).wrapping_add(2) < 5;
                    if ok && !(near(s2.pair(IXH).wrapping_add(d)) || near(s2.sp) || near(s2.sp.wrapping_sub(2)) || near(nn)) {
                        let mut t2 = s2.clone();
                        t2.set_pair(IXH, iy);
                        t2.set_pair(IYH, ix);
                        t2.poke(pc, &[b0]);
                        c.push(Cmd::SR(Box::new(s2)), P_NONE);
                        let x3 = c.push(Cmd::X, P_NONE);
                        let d3 = c.push(Cmd::D, P_NONE);
                        c.push(Cmd::SR(Box::new(t2)), P_NONE);
                        let x4 = c.push(Cmd::X, P_NONE);
                        let d4 = c.push(Cmd::D, P_NONE);
                        c.rels.push(Rel { a: x3, b: x4, proj: pj, swap_xy: true, what: "FD form = DD form with IX and IY exchanged (second execution)" });
                        c.rels.push(Rel { a: d3, b: d4, proj: p_mem(), swap_xy: false, what: "same memory effect (second execution)" });
                    }
                }
                cases.push(c);
            }
        }
    }
    cases
}

// ---------------------------------------------------------------------------------------------
// C11 / C13 / C14 : control-state grids and event histories
// ---------------------------------------------------------------------------------------------
fn ctl_grid(r: &mut Rng, tier: &str, want_nmi: bool, want_halt: Option<bool>) -> Vec<Case> {
    let mut cases = vec![];
    let reps = if quick(tier) { 1 } else { 6 };
    let ivals: [u8; 5] = [0x00, 0x01, 0x7F, 0x80, 0xFF];
    for iff1 in [false, true] {
        for iff2 in [false, true] {
            for im in 0..3u8 {
                for halt in [false, true] {
                    if let Some(h) = want_halt {
                        if h != halt {
                            continue;
                        }
                    }
                    for nmi in [false, true] {
                        if nmi && !want_nmi {
                            continue;
                        }
                        for b in 0..=255u8 {
                            for rep in 0..reps {
                                let mut s = rand_state(r);
                                s.iff1 = iff1;
                                s.iff2 = iff2;
                                s.im = im;
                                s.halt = halt;
                                s.nmi = nmi;
                                s.int = if want_nmi && (b % 3 == 0) { None } else { Some(b) };
                                s.regs[I] = ivals[(b as usize + rep) % 5];
                                if (b as usize + rep) % 4 == 0 {
                                    s.pc = r.pick(&EDGE_ADDR);
                                }
                                if (b as usize + rep) % 5 == 0 {
                                    s.sp = r.pick(&EDGE_ADDR);
                                }
                                if im == 2 && (b as usize + rep) % 3 == (if want_nmi { 1 } else { 0 }) {
                                    // the stack runs into the mode-2 table entry being used
                                    let t = (s.regs[I] as u16) << 8 | b as u16;
                                    s.sp = t.wrapping_add(1 + ((b as u16 / 3) % 3));
                                }
                                // first handler instruction / instruction at pc
                                let first = r.pick(&[0x00u8, 0xED, 0xFB, 0xF3, 0x76, 0x3E, 0xC9]);
                                let pc = s.pc;
                                s.poke(pc, &[first, r.pick(&[0x45u8, 0x4D, 0x57, 0x5F, 0x00])]);
                                if (b as usize / 8 + rep) % 3 == 1 {
                                    // the interrupted program's next instruction is the very opcode the request
                                    // supplies (mode 0) / the restart mode 1 substitutes, or an RST of its own
                                    let same = match im {
                                        1 => 0xFF,
                                        _ if b & 0xC7 == 0xC7 => b,
                                        _ => r.pick(&RST_OPS),
                                    };
                                    s.poke(pc, &[same]);
                                    s.poke(pc.wrapping_add(1), &[same]);
                                }
                                if halt {
                                    s.poke(pc, &[0x76]);
                                }
                                s.poke(0x0066, &[r.pick(&[0x00u8, 0xED, 0xFB])]);
                                s.poke(0x0067, &[r.pick(&[0x45u8, 0x4D, 0x57])]);
                                let is_rst = b & 0xC7 == 0xC7;
                                let mut c = Case::new(format!(
                                    "ctl/i{}{}m{}h{}n{}{}",
                                    iff1 as u8,
                                    iff2 as u8,
                                    im,
                                    halt as u8,
                                    nmi as u8,
                                    if is_rst { "rst" } else { "x" }
                                ));
                                c.key = "ctl".into();
                                // mode 0 executes the supplied byte as an opcode: the property only speaks
                                // about the eight RST opcodes there
                                let outside = im == 0 && iff1 && !nmi && s.int.is_some() && !is_rst;
                                let pj = if outside { P_NONE } else { p_ctl() };
                                let pm = if outside { P_NONE } else { p_mem() };
                                c.push(sbox(s), P_NONE);
                                c.push(Cmd::X, pj);
                                c.push(Cmd::X, pj);
                                c.push(Cmd::D, pm);
                                cases.push(c);
                            }
                        }
                    }
                }
            }
        }
    }
    cases
}

/// event histories: a code stream of control instructions at PC, requests raised between steps
fn histories(r: &mut Rng, tier: &str, alphabet: &[&str]) -> Vec<Case> {
    let mut cases = vec![];
    let maxlen = 4;
    // exhaustive up to length 4 over the alphabet (thorough) / length 3 (quick), then random long ones
    let exh = if quick(tier) { 3 } else { maxlen };
    let mut seqs: Vec<Vec<usize>> = vec![vec![]];
    let mut frontier: Vec<Vec<usize>> = vec![vec![]];
    for _ in 0..exh {
        let mut next = vec![];
        for s in &frontier {
            for a in 0..alphabet.len() {
                let mut t = s.clone();
                t.push(a);
                next.push(t);
            }
        }
        seqs.extend(next.iter().cloned());
        frontier = next;
    }
    let nrand = if quick(tier) { 300 } else { 20000 };
    for _ in 0..nrand {
        let len = 5 + r.below(36) as usize;
        seqs.push((0..len).map(|_| r.below(alphabet.len() as u64) as usize).collect());
    }
    for (si, seq) in seqs.iter().enumerate() {
        let mut s = rand_state(r);
        s.seed = 0;
        s.pc = 0x0200;
        s.sp = 0x9000;
        s.iff1 = si % 2 == 0;
        s.iff2 = si % 4 < 2;
        s.im = (si % 3) as u8;
        s.regs[I] = 0x40;
        // vectors: every RST target and 0x66 hold RETN / RETI / EI;RET alternately; IM2 table at 0x40xx -> 0x0300
        for (j, v) in [0x00u16, 0x08, 0x10, 0x18, 0x20, 0x28, 0x30, 0x38].iter().enumerate() {
            let body: &[u8] = match (j + si) % 3 {
                0 => &[0xED, 0x4D],
                1 => &[0xFB, 0xC9],
                _ => &[0xC9],
            };
            s.poke(*v, body);
        }
        s.poke(0x0066, if si % 2 == 0 { &[0xED, 0x45] } else { &[0xED, 0x57, 0xED, 0x45] });
        for k in 0..128u16 {
            s.poke(0x4000 + 2 * k, &[0x00, 0x03]);
        }
        s.poke(0x0300, &[0xFB, 0xED, 0x4D]);
        // the code stream
        let mut code: Vec<u8> = vec![];
        let mut events: Vec<Option<Cmd>> = vec![];
        for &a in seq {
            match alphabet[a] {
                "EI" => {
                    code.push(0xFB);
                    events.push(None)
                }
                "DI" => {
                    code.push(0xF3);
                    events.push(None)
                }
                "IM0" => {
                    code.extend([0xED, 0x46]);
                    events.push(None)
                }
                "IM1" => {
                    code.extend([0xED, 0x56]);
                    events.push(None)
                }
                "IM2" => {
                    code.extend([0xED, 0x5E]);
                    events.push(None)
                }
                "NOP" => {
                    code.push(0x00);
                    events.push(None)
                }
                "HALT" => {
                    code.push(0x76);
                    events.push(None)
                }
                "LDAI" => {
                    code.extend([0xED, 0x57]);
                    events.push(None)
                }
                "RETN" => {
                    // call a RETN so that the stack stays balanced
                    code.extend([0xCD, 0x66, 0x00]);
                    events.push(None)
                }
                "RETI" => {
                    code.extend([0xCD, 0x00, 0x03]);
                    events.push(None)
                }
                "INT" => events.push(Some(Cmd::I(RST_OPS[(si + code.len()) % 8]))),
                // the mode is dynamic in a history and mode 0 is only specified for the RST opcodes: stay inside them
                "INTX" => events.push(Some(Cmd::I(RST_OPS[(si * 7 + code.len() * 13) % 8]))),
                "NMI" => events.push(Some(Cmd::N)),
                _ => {}
            }
        }
        code.extend([0x00; 8]);
        s.poke(0x0200, &code);
        let mut c = Case::new(format!("hist/len{}im{}", seq.len().min(6), si % 3));
        c.key = "history".into();
        c.push(sbox(s), P_NONE);
        for e in events {
            if let Some(cmd) = e {
                c.push(cmd, P_NONE);
            }
            c.push(Cmd::X, p_ctl());
        }
        // let handlers finish
        for _ in 0..4 {
            c.push(Cmd::X, p_ctl());
        }
        c.push(Cmd::D, p_mem());
        cases.push(c);
    }
    cases
}

pub fn c11(r: &mut Rng, tier: &str) -> Vec<Case> {
    let mut v = ctl_grid(r, tier, false, None);
    v.extend(histories(r, tier, &["EI", "DI", "IM0", "IM1", "IM2", "RETI", "RETN", "NOP", "HALT", "INT", "INTX", "NMI"]));
    v
}

pub fn c13(r: &mut Rng, tier: &str) -> Vec<Case> {
    let mut v = ctl_grid(r, tier, true, None);
    v.retain(|c| c.tag.contains("n1"));
    v.extend(histories(r, tier, &["NMI", "INT", "EI", "DI", "RETN", "RETI", "LDAI", "NOP"]));
    // LD A,I / LD A,R expose the shadow in P/V: compare that flag (and A) as well
    for c in v.iter_mut() {
        for p in c.projs.iter_mut() {
            if p.pc {
                p.fmask = 0x04;
            }
        }
    }
    v
}

pub fn c14(r: &mut Rng, tier: &str) -> Vec<Case> {
    let mut cases = vec![];
    let n = if quick(tier) { 6 } else { 80 };
    // executing a HALT, idling, then every kind of request, then returning
    for iff1 in [false, true] {
        for im in 0..3u8 {
            for req in 0..5u8 {
                // 0 none, 1 NMI, 2 INT(rst), 3 INT(any), 4 INT(non-RST byte, meaningful in mode 0)
                for idle in [0usize, 1, 2, 17] {
                    for k in 0..n {
                        let mut s = rand_state(r);
                        s.seed = 0;
                        s.iff1 = iff1;
                        s.iff2 = r.bool();
                        s.im = im;
                        s.regs[I] = 0x40;
                        if k % 3 == 0 {
                            s.pc = r.pick(&[0xFFFFu16, 0xFFFE, 0x0000, 0x7FFF]);
                        }
                        s.sp = if k % 4 == 0 { r.pick(&EDGE_ADDR) } else { 0x9000 | (r.u16() & 0xFF) };
                        let pc = s.pc;
                        s.poke(pc, &[0x76, 0x3C, 0x3C]); // HALT ; INC A ; INC A
                        for v in [0x00u16, 0x08, 0x10, 0x18, 0x20, 0x28, 0x30, 0x38] {
                            s.poke(v, &[0xED, 0x4D]);
                        }
                        s.poke(0x0066, &[0xED, 0x45]);
                        for j in 0..128u16 {
                            s.poke(0x4000 + 2 * j, &[0x38, 0x00]);
                        }
                        let mut c = Case::new(format!("halt/i{}m{}r{}d{}", iff1 as u8, im, req, idle));
                        c.key = "halt".into();
                        c.push(sbox(s), P_NONE);
                        c.push(Cmd::X, p_ctl()); // executes HALT
                        for _ in 0..idle {
                            c.push(Cmd::X, p_ctl());
                        }
                        let after = if req == 4 { Proj { ctl: true, ..NONE } } else { p_ctl() };
                        match req {
                            4 => {
                                c.push(Cmd::I(r.pick(&[0x00u8, 0x04, 0x3C, 0x47])), P_NONE);
                            }
                            1 => {
                                c.push(Cmd::N, P_NONE);
                            }
                            2 => {
                                c.push(Cmd::I(r.pick(&RST_OPS)), P_NONE);
                            }
                            3 => {
                                // any byte in modes 1 and 2; mode 0 is specified for the RST opcodes only
                                let b = if im == 0 { r.pick(&RST_OPS) } else { r.u8() & 0xFE };
                                c.push(Cmd::I(b), P_NONE);
                            }
                            _ => {}
                        }
                        // one step decides whether the halt ended; the steps after that only for the
                        // requests whose handler is specified
                        c.push(Cmd::X, after);
                        if req != 4 {
                            for _ in 0..3 {
                                c.push(Cmd::X, p_ctl());
                            }
                            c.push(Cmd::D, p_mem());
                        }
                        cases.push(c);
                    }
                }
            }
        }
    }
    let mut g = ctl_grid(r, tier, true, Some(true));
    if quick(tier) {
        g.truncate(6000);
    }
    cases.extend(g);
    cases
}

// ---------------------------------------------------------------------------------------------
// C12
// ---------------------------------------------------------------------------------------------
pub fn c12(r: &mut Rng, tier: &str) -> Vec<Case> {
    let n = if quick(tier) { 8 } else { 64 };
    let mut cases = vec![];
    let bytes: Vec<u8> = if quick(tier) {
        vec![0x00, 0xC7, 0xCF, 0xD7, 0xDF, 0xE7, 0xEF, 0xF7, 0xFF, 0xCD, 0x76, 0xDD]
    } else {
        (0..=255u8).collect()
    };
    let pj = p_full_nor();
    for (page, op) in all_rows() {
        for k in 0..n {
            let mut s = state_for(r, page, op);
            s.iff1 = false;
            s.iff2 = k % 2 == 0;
            s.im = (k % 3) as u8;
            s.halt = k % 7 == 6;
            // a non-maskable request pending in the same step: the masked request must not change how it is served
            s.nmi = k % 4 == 3;
            s.dbg = [k % 2 == 1, false, false, false];
            let b = bytes[(k + op as usize) % bytes.len()];
            let mut t = s.clone();
            t.int = Some(b);
            let mut c = Case::new(format!("{}/b{:02X}m{}", tagof(page, op), if b & 0xC7 == 0xC7 { 0xC7 } else { b & 1 }, k % 3));
            c.key = tagof(page, op);
            c.push(sbox(t), P_NONE);
            let x1 = c.push(Cmd::X, P_NONE);
            let d1 = c.push(Cmd::D, P_NONE);
            c.push(sbox(s), P_NONE);
            let x2 = c.push(Cmd::X, P_NONE);
            let d2 = c.push(Cmd::D, P_NONE);
            // the property lists registers, flags, memory, stack, PC and T-states; whether a
            // halted CPU keeps the masked request latched is not among them
            let rj = Proj { latch: false, ..pj };
            c.rels.push(Rel { a: x2, b: x1, proj: rj, swap_xy: false, what: "masked request = no request" });
            c.rels.push(Rel { a: d2, b: d1, proj: p_mem(), swap_xy: false, what: "masked request = no request (memory)" });
            cases.push(c);
        }
    }
    cases
}

// ---------------------------------------------------------------------------------------------
// C15 / C16
// ---------------------------------------------------------------------------------------------
pub fn c15(r: &mut Rng, tier: &str) -> Vec<Case> {
    let n = if quick(tier) { 16 } else { 200 };
    let mut cases = vec![];
    for page in [Page::Base, Page::CB] {
        for op in 0..=255u8 {
            if page == Page::Base && matches!(op, 0xCB | 0xDD | 0xED | 0xFD) {
                continue;
            }
            for k in 0..n {
                let mut s = state_for(r, page, op);
                if k % 4 == 0 {
                    s.pc = r.pick(&EDGE_ADDR);
                    let code = encode(page, op, v8(r), v8(r), v8(r));
                    s = with_code(s, &code);
                }
                if k % 4 == 2 {
                    alias_pc(r, &mut s, page, op);
                }
                if k % 4 == 1 {
                    // a request that will not be accepted is pending: the listing and the step still agree
                    s.iff1 = false;
                    s.int = Some(if k % 8 == 1 { r.pick(&RST_OPS) } else { r.u8() });
                }
                if k % 4 == 3 {
                    context_bytes(r, &mut s, page, op);
                }
                let pc = s.pc;
                let mut c = Case::new(format!("{}/pc{}a{}", tagof(page, op), cls16(pc), (k % 4 == 2) as u8));
                c.key = tagof(page, op);
                c.push(sbox(s), P_NONE);
                c.push(Cmd::DA(pc), Proj { other: true, da_size_only: true, ..NONE });
                c.push(Cmd::X, Proj { pc: true, ..NONE });
                cases.push(c);
            }
        }
    }
    c15_next(r, &mut cases);
    cases
}

/// C15: every recognised row followed by each of the common next opcodes
fn c15_next(r: &mut Rng, cases: &mut Vec<Case>) {
    for page in [Page::Base, Page::CB] {
        for op in 0..=255u8 {
            if page == Page::Base && matches!(op, 0xCB | 0xDD | 0xED | 0xFD) {
                continue;
            }
            for (j, nb) in NEXT_OPS.iter().enumerate() {
                let mut s = state_for(r, page, op);
                followed_by(&mut s, page, *nb);
                let pc = s.pc;
                let mut c = Case::new(format!("{}/next{}", tagof(page, op), j % 4));
                c.key = tagof(page, op);
                c.push(sbox(s), P_NONE);
                c.push(Cmd::DA(pc), Proj { other: true, da_size_only: true, ..NONE });
                c.push(Cmd::X, Proj { pc: true, ..NONE });
                cases.push(c);
            }
        }
    }
}

pub fn c16(r: &mut Rng, tier: &str) -> Vec<Case> {
    let n = if quick(tier) { 16 } else { 300 };
    let mut cases = vec![];
    let ob: [u8; 6] = [0x00, 0x01, 0x7F, 0x80, 0xFF, 0xA5];
    for page in [Page::Base, Page::CB] {
        for op in 0..=255u8 {
            if page == Page::Base && matches!(op, 0xCB | 0xDD | 0xED | 0xFD) {
                continue;
            }
            for k in 0..n {
                let mut s = rand_state(r);
                if k % 3 == 0 {
                    s.pc = r.pick(&EDGE_ADDR);
                }
                let code = encode(page, op, ob[k % 6], ob[(k / 6) % 6], v8(r));
                s = with_code(s, &code);
                if k % 5 == 3 {
                    s = with_ctl(r, s);
                }
                if k % 4 == 1 {
                    context_bytes(r, &mut s, page, op);
                }
                let pc = s.pc;
                let mut c = Case::new(format!("{}/o{}pc{}", tagof(page, op), k % 6, cls16(pc)));
                c.key = tagof(page, op);
                c.push(sbox(s.clone()), P_NONE);
                c.push(Cmd::DA(pc), p_mem());
                if k % 2 == 0 {
                    // the text follows the present state: ask again after changing one thing at a time
                    // (one register pair, an operand byte, the opcode byte), same CPU object, same address
                    let mut t = s.clone();
                    for step in 0..6 {
                        match (k / 2 + step) % 8 {
                            0 => t.set_pair(B, v16(r)),
                            1 => t.set_pair(D, v16(r)),
                            2 => t.set_pair(H, v16(r)),
                            3 => {
                                t.regs[IXH] = r.u8();
                                t.regs[IXL] = r.u8();
                            }
                            4 => {
                                t.regs[IYH] = r.u8();
                                t.regs[IYL] = r.u8();
                            }
                            5 => t.sp = v16(r),
                            6 => {
                                let a = pc.wrapping_add(1 + r.below(3) as u16);
                                c.push(Cmd::WB(a, r.u8()), P_NONE);
                            }
                            _ => {
                                let other = encode(page, op.wrapping_add(1 + r.below(7) as u8), ob[step % 6], v8(r), v8(r));
                                for (i, b) in other.iter().enumerate() {
                                    c.push(Cmd::WB(pc.wrapping_add(i as u16), *b), P_NONE);
                                }
                            }
                        }
                        c.push(Cmd::P(Box::new(t.clone())), P_NONE);
                        c.push(Cmd::DA(pc), p_mem());
                    }
                }
                cases.push(c);
            }
            // the listing of an instruction that has just been EXECUTED (with any diagnostic switch on): the text still
            // follows the present registers and memory, not what they were when the instruction was fetched
            for k in 0..(if quick(tier) { 4 } else { 24 }) {
                let mut s = rand_state(r);
                s.halt = false;
                s.int = None;
                s.nmi = false;
                let m = [2u8, 3, 15, 0][k % 4];
                s.dbg = [m & 1 != 0, m & 2 != 0, m & 4 != 0, m & 8 != 0];
                let code = encode(page, op, ob[k % 6], ob[(k / 6) % 6], v8(r));
                s = with_code(s, &code);
                let pc = s.pc;
                let mut c = Case::new(format!("{}/executed{}", tagof(page, op), k % 4));
                c.key = tagof(page, op);
                c.push(Cmd::SN(Box::new(s)), P_NONE);
                c.push(Cmd::X, P_NONE);
                c.push(Cmd::DA(pc), p_mem());
                c.push(Cmd::HostReg([2u8, 0, 1, 3, 4][k % 5], v16(r)), P_NONE);
                c.push(Cmd::DA(pc), p_mem());
                c.push(Cmd::X, P_NONE);
                c.push(Cmd::DA(pc), p_mem());
                cases.push(c);
            }
        }
    }
    cases
}

// ---------------------------------------------------------------------------------------------
// C17
// ---------------------------------------------------------------------------------------------
pub fn c17(r: &mut Rng, tier: &str) -> Vec<Case> {
    let n = if quick(tier) { 4 } else { 40 };
    let mut cases = vec![];
    let pj = Proj { r: false, dbg: 0, ..FULL };
    for (page, op) in all_rows() {
        for k in 0..n {
            let mut s = state_for(r, page, op);
            if k % 3 == 2 {
                s = with_ctl(r, s);
            }
            let mut c = Case::new(format!("{}/k{}", tagof(page, op), k % 4));
            c.key = tagof(page, op);
            // (a) all 16 switch combinations (quick: 4 of them per case, rotating) + stale text
            let mut xs = vec![];
            let combos: Vec<u8> = if quick(tier) { vec![0, (1 + k as u8 * 5) % 16, (7 + k as u8 * 3) % 16, 15] } else { (0..16).collect() };
            for m in combos {
                let mut t = s.clone();
                t.dbg = [m & 1 != 0, m & 2 != 0, m & 4 != 0, m & 8 != 0];
                t.stale = m % 3 == 1;
                t.scur = if m % 2 == 0 { 0 } else { 12345 };
                c.push(sbox(t), P_NONE);
                let x = c.push(Cmd::X, Proj { dbg: 2, ..NONE });
                let d = c.push(Cmd::D, P_NONE);
                xs.push((x, d));
            }
            for w in xs.windows(2) {
                c.rels.push(Rel { a: w[0].0, b: w[1].0, proj: pj, swap_xy: false, what: "diagnostic switches only observe" });
                c.rels.push(Rel { a: w[0].1, b: w[1].1, proj: p_mem(), swap_xy: false, what: "diagnostic switches only observe (memory)" });
            }
            // (b) the same state after a different history: run something else first, then restore
            // the same CPU object first lives through another history that ends with a control instruction
            // (EI, DI, HALT, IM n, RETN, RETI, LD A,I, a prefix, ...), then is put into state `s` again
            let mut other = state_for(r, page, op.wrapping_mul(31).wrapping_add(k as u8));
            other.top = s.top;
            let tail: [&[u8]; 10] = [&[0xFB], &[0xF3], &[0x76], &[0xED, 0x46], &[0xED, 0x5E], &[0xED, 0x45], &[0xED, 0x4D],
                                     &[0xED, 0x57], &[0xDD, 0xFB], &[0x00]];
            let opc = other.pc;
            let mut code: Vec<u8> = vec![0x00];
            code.extend_from_slice(tail[(k + op as usize) % 10]);
            other.poke(opc, &code);
            other.halt = false;
            other.int = None;
            other.nmi = false;
            c.push(sbox(other), P_NONE);
            c.push(Cmd::X, P_NONE);
            c.push(Cmd::X, P_NONE);
            let mut s1 = s.clone();
            if k % 2 == 1 && s1.int.is_none() {
                s1.int = Some(r.pick(&RST_OPS));
            }
            let s = s1;
            c.push(Cmd::SR(Box::new(s.clone())), P_NONE);
            let x2 = c.push(Cmd::X, P_NONE);
            let d2 = c.push(Cmd::D, P_NONE);
            let mut s0 = s.clone();
            s0.dbg = [false; 4];
            c.push(sbox(s0), P_NONE);
            let x3 = c.push(Cmd::X, P_NONE);
            let d3 = c.push(Cmd::D, P_NONE);
            c.rels.push(Rel { a: x2, b: x3, proj: pj, swap_xy: false, what: "outcome independent of earlier history" });
            c.rels.push(Rel { a: d2, b: d3, proj: p_mem(), swap_xy: false, what: "outcome independent of earlier history (memory)" });
            cases.push(c);
        }
    }
    // (c) independent of wall-clock time: the same timed run once at full speed and once with the host
    // stalling (longer than a slice) at various points; the architectural outcome and the calls at which a
    // sleep is requested must coincide (the requested amount is clock-dependent and not compared)
    let nt = if quick(tier) { 24 } else { 200 };
    for k in 0..nt {
        let mut s = rand_state(r);
        s.seed = SEEDS[1 + k % 5];
        s.smax = [40u32, 200, 1000][k % 3];
        s.sdur = [1u32, 2, 4][(k / 3) % 3];
        s.scur = 0;
        let steps = 120;
        let stall_at: Vec<usize> = (0..4).map(|_| r.below(steps as u64) as usize).collect();
        let mut c = Case::new(format!("stall/b{}d{}", s.smax, s.sdur));
        c.key = "stall".into();
        let pj = Proj { r: false, dbg: 0, cyc: false, slice: true, ..FULL };
        let mut runs: Vec<Vec<usize>> = vec![];
        for twin in 0..2 {
            c.push(Cmd::SN(Box::new(s.clone())), P_NONE);
            let mut ix = vec![];
            for j in 0..steps {
                if twin == 1 && stall_at.contains(&j) {
                    c.push(Cmd::Nap(s.sdur + 2), P_NONE);
                }
                ix.push(c.push(Cmd::T, Proj { slice: false, ..NONE }));
            }
            ix.push(c.push(Cmd::D, P_NONE));
            runs.push(ix);
        }
        for j in 0..steps {
            c.rels.push(Rel { a: runs[0][j], b: runs[1][j], proj: pj, swap_xy: false, what: "timed step independent of host time" });
        }
        c.rels.push(Rel { a: runs[0][steps], b: runs[1][steps], proj: p_mem(), swap_xy: false, what: "timed run independent of host time (memory)" });
        cases.push(c);
    }
    cases
}

// ---------------------------------------------------------------------------------------------
// C18
// ---------------------------------------------------------------------------------------------
pub fn c18(r: &mut Rng, tier: &str) -> Vec<Case> {
    let (np, ns) = if quick(tier) { (48, 1200) } else { (600, 5000) };
    let budgets: [u32; 6] = [3, 4, 17, 100, 1000, 35000];
    let mut cases = vec![];
    // the budget: f MHz (in eighths, so that f and f*10^6 are exact in f32) x every d dividing 1000;
    // the model's value is the exact f x 1000 x d, the implementation's is what set_freq computed
    {
        let mut c = Case::new("budget/grid".into());
        c.key = "budget".into();
        c.push(sbox(St::default()), P_NONE);
        for d in [1u32, 2, 4, 5, 8, 10, 20, 25, 40, 50, 100, 125, 200, 250, 500, 1000] {
            for n8 in [1u32, 2, 4, 8, 12, 14, 16, 20, 28, 32, 40, 64, 17, 29] {
                // keep the product below 2^24 so that every intermediate value is exact in f32
                if (n8 as u64) * 125 * (d as u64) < (1 << 24) {
                    c.push(Cmd::SD(d), P_NONE);
                    c.push(Cmd::SF(n8), p_mem());
                }
            }
        }
        cases.push(c);
        // clocks that are not on that grid: real crystals and random singles, every d dividing 1000; the value the
        // property prescribes is the whole part of f x 1000 x d (exact arithmetic on the single's value), compared
        // wherever the fraction is not within 0.05 of an integer (the implementation rounds twice in f32)
        let mut c = Case::new("budget/clocks".into());
        c.key = "budget".into();
        c.push(sbox(St::default()), P_NONE);
        let mut clocks: Vec<f32> = vec![3.579545, 3.5469, 2.4576, 1.7734, 4.433619, 3.58, 1.7897725, 0.0125, 3.072, 1.8432, 6.144, 7.3728, 2.1, 1.7, 4.0, 0.5];
        for _ in 0..(if quick(tier) { 120 } else { 4000 }) {
            // between 1 kHz and 16 MHz, random mantissa
            let e = 117 + r.below(15) as u32;
            clocks.push(f32::from_bits(e << 23 | (r.next() as u32 & 0x7F_FFFF)));
        }
        for f in clocks {
            for d in [1u32, 2, 4, 5, 8, 10, 20, 25, 40, 50, 100, 125, 200, 250, 500, 1000] {
                if let Some((q, robust)) = budget_exact(f.to_bits(), d) {
                    if robust && q < (1 << 20) {
                        c.push(Cmd::SD(d), P_NONE);
                        c.push(Cmd::SFB(f.to_bits()), p_mem());
                    }
                }
            }
        }
        cases.push(c);
        // and the budget that was set is the one the throttle uses
        for (n8, d) in [(1u32, 1u32), (8, 1), (16, 20), (28, 20), (17, 4)] {
            let mut s = rand_state(r);
            s.seed = SEEDS[3];
            let mut c = Case::new(format!("budget/use{}", n8));
            c.key = "budget".into();
            c.push(sbox(s.clone()), P_NONE);
            c.push(Cmd::SD(d), P_NONE);
            c.push(Cmd::SF(n8), p_mem());
            let mut tix = vec![];
            for _ in 0..600 {
                tix.push(c.push(Cmd::T, P_NONE));
            }
            c.push(sbox(s.clone()), P_NONE);
            let mut xix = vec![];
            for _ in 0..600 {
                xix.push(c.push(Cmd::X, P_NONE));
            }
            c.acct = Some(Accounting { t: tix, x: xix, smax: n8 * 125 * d, scur: s.scur });
            cases.push(c);
        }
    }
    for k in 0..np {
        let mut s = rand_state(r);
        s.seed = SEEDS[1 + k % 5];
        s.smax = budgets[k % 6];
        s.sdur = [1u32, 16, 20, 1000][k % 4];
        s.scur = if k % 3 == 0 { 0 } else { r.below(s.smax as u64 + 300) as u32 };
        if k % 4 == 1 {
            // a program that soon halts (DI; HALT or EI; HALT): the idle steps count 4 T-states each
            let pc = s.pc;
            s.poke(pc, &[if k % 8 == 1 { 0xF3 } else { 0xFB }, 0x00, 0x76]);
        }
        let mut c = Case::new(format!("timed/b{}d{}c{}h{}", s.smax, s.sdur, (s.scur > 0) as u8, (k % 4 == 1) as u8));
        c.key = "timed".into();
        // sleep presence / bound / counter are judged on the implementation's own T-states (accounting
        // oracle below); against the model only the bound marker matters
        let pj = Proj { slice: false, ..NONE };
        let (smax0, scur0) = (s.smax, s.scur);
        c.push(sbox(s.clone()), P_NONE);
        let mut last_t = 0;
        let mut tix = vec![];
        for _ in 0..ns {
            last_t = c.push(Cmd::T, pj);
            tix.push(last_t);
        }
        let d1 = c.push(Cmd::D, P_NONE);
        // twin: the same program stepped untimed
        c.push(sbox(s), P_NONE);
        let mut last_x = 0;
        let mut xix = vec![];
        for _ in 0..ns {
            last_x = c.push(Cmd::X, P_NONE);
            xix.push(last_x);
        }
        c.acct = Some(Accounting { t: tix, x: xix, smax: smax0, scur: scur0 });
        let d2 = c.push(Cmd::D, P_NONE);
        let arch = Proj { r: false, cyc: false, dbg: 0, slice: false, ..FULL };
        c.rels.push(Rel { a: last_x, b: last_t, proj: arch, swap_xy: false, what: "timed stepping = plain stepping" });
        c.rels.push(Rel { a: d2, b: d1, proj: p_mem(), swap_xy: false, what: "timed stepping = plain stepping (memory)" });
        cases.push(c);
    }
    cases
}

// ---------------------------------------------------------------------------------------------
// C19
// ---------------------------------------------------------------------------------------------
pub fn c19(r: &mut Rng, tier: &str) -> Vec<Case> {
    let n = if quick(tier) { 500 } else { 4000 };
    let mut cases = vec![];
    let pj = Proj { r: false, dbg: 0, cyc: false, ..FULL };
    for (rop, sop, cmp) in [(0xB0u8, 0xA0u8, false), (0xB8, 0xA8, false), (0xB1, 0xA1, true), (0xB9, 0xA9, true)] {
        for k in 0..n {
            let mut s = rand_state(r);
            s.seed = SEEDS[k % 6];
            let big = if quick(tier) { k % 120 == 1 } else { k % 240 == 1 };
            let bc: u16 = match k % 6 {
                0 => 1 + (k as u16 / 6) % 300,
                1 if big => r.pick(&[0x7FFFu16, 0x8000, 0x8001, 0xFFFF]),
                1 => r.pick(&[0x0100u16, 0x00FF, 0x0101]),
                2 => 1 + (r.u16() & if quick(tier) { 0x01FF } else { 0x0FFF }),
                _ => 1 + r.below(64) as u16,
            };
            s.set_pair(B, bc);
            // placements: disjoint / overlapping either way / wrapping / ROM
            let hl = v16(r);
            s.set_pair(H, hl);
            // disjoint, overlapping either way, the far end of one block touching the near end of the other
            let de = match k % 11 {
                0 => hl.wrapping_add(1),
                1 => hl.wrapping_sub(1),
                2 => hl.wrapping_add(bc / 2),
                3 => 0xFFFFu16.wrapping_sub(r.u16() & 0x3F),
                4 => hl.wrapping_sub(bc).wrapping_add(1),
                5 => hl.wrapping_sub(bc),
                6 => hl.wrapping_sub(bc).wrapping_add(2),
                7 => hl.wrapping_add(bc).wrapping_sub(1),
                8 => hl.wrapping_add(bc),
                9 => hl.wrapping_sub(bc / 2),
                _ => v16(r),
            };
            s.set_pair(D, de);
            let small_top = k % 8 == 7;
            if small_top {
                // a memory smaller than 64K: the block runs up to, across or entirely above the top address
                // (reads there give 0, stores are dropped); searches for 0 are the interesting ones
                let top = [0x00FFu16, 0x3FFF, 0x7FFF, 0x8000][(k / 8) % 4];
                s.top = top;
                s.seed = SEEDS[1 + k % 5];
                let bc = 2 + r.below(46) as u16;
                s.set_pair(B, bc);
                let up = rop == 0xB0 || rop == 0xB1;
                let hl = if up { top.wrapping_sub(r.below(bc as u64 + 4) as u16).wrapping_add(2) } else { top.wrapping_add(r.below(bc as u64 + 4) as u16).wrapping_sub(2) };
                s.set_pair(H, hl);
                let de = match (k / 8) % 3 {
                    0 => if up { top.wrapping_sub(r.below(bc as u64 + 2) as u16).wrapping_add(1) } else { top.wrapping_add(r.below(bc as u64 + 2) as u16) },
                    1 => 0x0080,
                    _ => hl.wrapping_add(1),
                };
                s.set_pair(D, de);
                if cmp {
                    s.regs[A] = if k % 16 == 7 { 0 } else { v8(r) };
                }
            }
            if k % 4 == 1 && !small_top {
                let a = de.wrapping_add(r.u16() & 0x1F);
                s.rom = Some((a, a.wrapping_add(r.u16() & 0xFF)));
            }
            let hl = s.pair(H);
            let de = s.pair(D);
            if !cmp && k % 22 == 0 && !small_top {
                // the clear-memory idiom over a few hundred bytes, a ROM window inside the block
                let bc2 = 0x100 + (r.u16() & 0x7F);
                s.set_pair(B, bc2);
                s.poke(hl, &[0x00]);
                s.seed = SEEDS[1 + k % 5];
                let a = de.wrapping_add(r.u16() & 0x7F);
                s.rom = Some((a, a.wrapping_add(r.u16() & 0x1F)));
            }
            let bc = s.pair(B);
            if cmp && k % 2 == 0 && !small_top {
                // plant a match somewhere in range
                let off = r.below(bc.max(1) as u64) as u16;
                let at = if rop == 0xB1 { hl.wrapping_add(off) } else { hl.wrapping_sub(off) };
                let a = s.regs[A];
                s.poke(at, &[a]);
            }
            // keep the instruction away from the touched ranges: put it in a ROM-free hole and
            // skip the case if the ranges reach it (the property's proviso)
            let pc = if small_top { 0x0010 } else { 0x0040u16.wrapping_add((k as u16 % 7) * 0x2000).wrapping_add(0x1FFE * ((k as u16 / 7) % 2)) };
            s.pc = pc;
            let touches = |start: u16, up: bool| -> bool {
                let dist = if up { pc.wrapping_add(1).wrapping_sub(start) } else { start.wrapping_sub(pc) };
                (dist as u32) < bc as u32 + 2
            };
            let up = rop == 0xB0 || rop == 0xB1;
            if touches(hl, up) || (!cmp && touches(de, up)) {
                continue;
            }
            let mut t = s.clone();
            s.poke(pc, &[0xED, rop]);
            t.poke(pc, &[0xED, sop]);
            let mut c = Case::new(format!("ED:{:02X}/bc{}p{}", rop, if bc < 300 { "s" } else { "l" }, k % 5));
            c.key = format!("ED:{:02X}", rop);
            c.push(sbox(s), P_NONE);
            let x1 = c.push(Cmd::X, P_NONE);
            let d1 = c.push(Cmd::D, P_NONE);
            c.push(sbox(t), P_NONE);
            let x2 = c.push(Cmd::Singles { pc0: pc, stop_on_z: cmp, max: 70000 }, P_NONE);
            let d2 = c.push(Cmd::D, P_NONE);
            c.rels.push(Rel { a: x1, b: x2, proj: pj, swap_xy: false, what: "repeat form = iterated single form" });
            c.rels.push(Rel { a: d1, b: d2, proj: p_mem(), swap_xy: false, what: "repeat form = iterated single form (memory)" });
            cases.push(c);
        }
    }
    cases
}

// ---------------------------------------------------------------------------------------------
// C20
// ---------------------------------------------------------------------------------------------
pub fn c20(r: &mut Rng, tier: &str) -> Vec<Case> {
    let mut cases = vec![];
    let maxtop = if quick(tier) { 24 } else { 64 };
    for top in 0..=maxtop as u16 {
        let mut s = St::default();
        s.top = top;
        s.seed = SEEDS[1 + (top as usize % 5)];
        if top % 3 == 1 {
            s.rom = Some((top / 3, top / 2));
        }
        // all (start, end) pairs: slices
        let mut c = Case::new(format!("slice/t{}", top.min(8)));
        c.key = "slice".into();
        c.push(sbox(s.clone()), P_NONE);
        for a in 0..=top as usize {
            for b in a..=top as usize {
                c.push(Cmd::SL(a, b), p_mem());
            }
        }
        cases.push(c);
        for a in 0..=top as usize {
            let mut c = Case::new(format!("clear/t{}", top.min(8)));
            c.key = "clear".into();
            for b in a..=top as usize {
                c.push(sbox(s.clone()), P_NONE);
                c.push(Cmd::CL(a, b), p_mem());
                c.push(Cmd::D, p_mem());
            }
            cases.push(c);
        }
        // files of every length at every fitting origin
        for org in 0..=top {
            let mut c = Case::new(format!("load/t{}", top.min(8)));
            c.key = "load".into();
            for len in 0..=(top as usize + 1 - org as usize) {
                c.push(sbox(s.clone()), P_NONE);
                c.push(Cmd::LB(org, Some(len), 0x77 + len as u32), p_mem());
                c.push(Cmd::D, p_mem());
            }
            c.push(sbox(s.clone()), P_NONE);
            c.push(Cmd::LB(org, None, 0), p_mem());
            c.push(Cmd::D, p_mem());
            cases.push(c);
        }
    }
    // histories on one bus: what an earlier load / write / clear did must not change what a later one does
    let nh = if quick(tier) { 200 } else { 4000 };
    for k in 0..nh {
        let top: u16 = if k % 4 == 0 { 0x3FF } else { 0x3F };
        let mut s = St::default();
        s.top = top;
        s.seed = SEEDS[k % 6];
        let mut c = Case::new(format!("history/t{}", cls16(top)));
        c.key = "history".into();
        c.push(sbox(s), P_NONE);
        let t = top as usize;
        for _ in 0..14 {
            match r.below(5) {
                0 => {
                    c.push(Cmd::WB((r.u16() as usize % (t + 1)) as u16, r.u8() | 1), P_NONE);
                }
                1 => {
                    let org = r.u16() as usize % (t + 1);
                    let len = r.below((t + 1 - org) as u64 + 1) as usize;
                    c.push(Cmd::LB(org as u16, Some(len), 0x100 + r.below(50) as u32), p_mem());
                }
                2 => {
                    let a = r.u16() as usize % (t + 1);
                    let b = a + r.below((t + 1 - a) as u64) as usize;
                    c.push(Cmd::CL(a, b), p_mem());
                }
                3 => {
                    let a = r.u16() as usize % (t + 1);
                    let b = a + r.below((t + 1 - a) as u64) as usize;
                    c.push(Cmd::SL(a, b.min(a + 40)), p_mem());
                }
                _ => {
                    c.push(Cmd::WW((r.u16() as usize % (t + 1)) as u16, r.u16()), P_NONE);
                }
            }
            c.push(Cmd::D, p_mem());
        }
        cases.push(c);
    }
    // large buses: boundary pairs, the largest file that fits, a missing path
    for top in [0xFFFFu16, 0x7FFF, 0xFFFE, 0x0100] {
        let t = top as usize;
        let mut s = St::default();
        s.top = top;
        s.seed = SEEDS[2];
        let mut c = Case::new(format!("large/t{}", cls16(top)));
        c.key = "large".into();
        c.push(sbox(s.clone()), P_NONE);
        for (a, b) in [(0usize, 0usize), (0, 1), (0, t), (t, t), (t - 1, t), (t - 1, t - 1), (1, t - 1), (t / 2, t / 2 + 300)] {
            if b <= t {
                c.push(Cmd::SL(a, b), p_mem());
            }
        }
        for (a, b) in [(0usize, 0usize), (t, t), (t - 1, t), (0, t), (5, 300)] {
            c.push(sbox(s.clone()), P_NONE);
            c.push(Cmd::CL(a, b), p_mem());
            c.push(Cmd::D, p_mem());
        }
        for (org, len) in [(0u16, t + 1), (0, 0), (top, 1), (top, 0), (1, t), (0x80, 0x80)] {
            c.push(sbox(s.clone()), P_NONE);
            c.push(Cmd::LB(org, Some(len), 0x4242), p_mem());
            c.push(Cmd::D, p_mem());
        }
        c.push(sbox(s.clone()), P_NONE);
        c.push(Cmd::LB(r.u16() & 0xFF, None, 0), p_mem());
        c.push(Cmd::D, p_mem());
        cases.push(c);
    }
    cases
}


// ---------------------------------------------------------------------------------------------
// register sweeps: one step for every value of one 16-bit register, for every row
// ---------------------------------------------------------------------------------------------

/// which hashes of a sweep line a property compares (engine::Proj::swr)
pub fn swr_bits(prop: &str) -> u8 {
    match prop {
        "C01" => 1,
        "C02" => 2,
        "C03" => 4,
        "C04" => 16,
        "C05" => 1 | 4 | 8,
        "C06" => 1 | 4 | 32,
        "C09" => 1,
        "C10" => 1 | 4 | 8 | 64,
        _ => 0,
    }
}

/// the projection of single steps that stands for the same observables
pub fn proj_for_sweep(prop: &str, fmask: u8) -> Proj {
    match prop {
        "C01" | "C09" => p_regs(),
        "C10" => Proj { fmask, regs: true, sp: true, pc: true, cyc: true, ..NONE },
        "C02" => Proj { fmask, mode: Mode::Flags, ..NONE },
        "C03" => Proj { pc: true, sp: true, ..NONE },
        "C04" | "C05" => Proj { cyc: true, mode: Mode::Timing, ..NONE },
        _ => Proj { regs: true, sp: true, pc: true, ctl: true, fmask: 0, ..NONE },
    }
}

fn is_bit_row(page: Page, op: u8) -> bool {
    matches!(page, Page::CB | Page::DDCB | Page::FDCB) && (0x40..0x80).contains(&op)
}

/// `regs`: subset of 0 BC 1 DE 2 HL 3 IX 4 IY 5 SP 7 AF 8 IR (I high, R low).  Every row of `rows` x every register x all
/// 65,536 values (block repeats: BC kept small and not swept).
pub fn swr_cases(r: &mut Rng, prop: &str, rows: &[(Page, u8)], regs: &[u8], per_row: usize) -> Vec<Case> {
    let bits = swr_bits(prop);
    let mut cases = vec![];
    for &(page, op) in rows {
        for k in 0..per_row {
            let mut s = state_for(r, page, op);
            s.top = 0xFFFF;
            s.rom = None;
            s.halt = false;
            s.int = None;
            s.nmi = false;
            if s.seed == 0 {
                s.seed = SEEDS[1 + k % 5];
            }
            if is_block_repeat(page, op) {
                s.set_pair(B, 1 + r.below(6) as u16);
            }
            // keep the code away from the very top so that the four restored bytes do not wrap (either is fine, this is simpler)
            for &w in regs {
                if is_block_repeat(page, op) && w == 0 {
                    continue;
                }
                // C10 relates two executions of the same implementation: every flag bit counts
                let fmask = if prop == "C10" { 0xFF } else if is_bit_row(page, op) { 0x53 } else { 0xD7 };
                let mut c = Case::new(format!("sweep-reg/{}/{}", ["BC", "DE", "HL", "IX", "IY", "SP", "PC", "AF", "IR"][w as usize], tagof(page, op)));
                c.key = tagof(page, op);
                c.push(sbox(s.clone()), P_NONE);
                c.push(Cmd::SWR { which: w, blk: 0, nblk: 1, fmask, link: None }, Proj { swr: bits, ..NONE });
                cases.push(c);
            }
        }
    }
    cases
}

/// two registers in a fixed relation (second = first + delta), the first one running through a block of values:
/// pointers that are equal or one or two apart, SP equal to a pointer, counts equal to pointers
pub fn swr_linked_cases(r: &mut Rng, prop: &str, rows: &[(Page, u8)], nblk: u32) -> Vec<Case> {
    let bits = swr_bits(prop);
    let pairs: [(u8, u8); 8] = [(2, 1), (2, 0), (1, 0), (2, 5), (5, 0), (3, 4), (2, 3), (1, 5)];
    let deltas: [u16; 5] = [0, 1, 0xFFFF, 2, 0xFFFE];
    let mut cases = vec![];
    for &(page, op) in rows {
        let mut s = state_for(r, page, op);
        s.top = 0xFFFF;
        s.rom = None;
        s.halt = false;
        s.int = None;
        s.nmi = false;
        if s.seed == 0 {
            s.seed = SEEDS[1 + op as usize % 5];
        }
        if is_block_repeat(page, op) {
            s.set_pair(B, 1 + r.below(5) as u16);
        }
        // every pair in every relation; the block of values rotates
        for &(w, l) in pairs.iter() {
            if is_block_repeat(page, op) && (w == 0 || l == 0) {
                continue;
            }
            for (di, &d) in deltas.iter().enumerate() {
                let fmask = if prop == "C10" { 0xFF } else if is_bit_row(page, op) { 0x53 } else { 0xD7 };
                let mut c = Case::new(format!("sweep-pair/{}{}/{}", w, l, tagof(page, op)));
                c.key = tagof(page, op);
                // the incoming flags: all set, all clear, or the row's random ones
                let mut s = s.clone();
                match (di + w as usize + op as usize) % 3 {
                    0 => s.regs[F] = 0xFF,
                    1 => s.regs[F] = 0x00,
                    _ => {}
                }
                if is_block_repeat(page, op) || (page == Page::ED && matches!(op, 0xA0 | 0xA8 | 0xA1 | 0xA9)) {
                    s.regs[F] = if di % 2 == 0 { 0xFF } else { 0x00 };
                    if d == 0 && di == 0 {
                        // the same relation once more with the flags the other way round
                        let mut t = s.clone();
                        t.regs[F] = 0x00;
                        let mut c2 = Case::new(format!("sweep-pair/{}{}/{}", w, l, tagof(page, op)));
                        c2.key = tagof(page, op);
                        c2.push(sbox(t), P_NONE);
                        c2.push(Cmd::SWR { which: w, blk: r.below(nblk as u64) as u32, nblk, fmask, link: Some((l, d)) }, Proj { swr: bits, ..NONE });
                        cases.push(c2);
                    }
                }
                c.push(sbox(s.clone()), P_NONE);
                c.push(Cmd::SWR { which: w, blk: r.below(nblk as u64) as u32, nblk, fmask, link: Some((l, d)) }, Proj { swr: bits, ..NONE });
                cases.push(c);
            }
        }
    }
    cases
}

/// every PC of a random image (the instruction stream is whatever the image holds there)
fn swr_pc_cases(r: &mut Rng, prop: &str, n: usize, tops: &[u16]) -> Vec<Case> {
    let bits = swr_bits(prop);
    let mut cases = vec![];
    for k in 0..n {
        let mut s = rand_state(r);
        s.seed = SEEDS[1 + k % 5];
        s.top = tops[k % tops.len()];
        s.rom = None;
        // keep accidental block repeats short
        s.set_pair(B, 1 + r.below(6) as u16);
        let mut c = Case::new(format!("sweep-reg/PC/top{:04X}", s.top));
        c.key = "sweep-pc".into();
        c.push(sbox(s), P_NONE);
        c.push(Cmd::SWR { which: 6, blk: 0, nblk: 1, fmask: 0, link: None }, Proj { swr: bits & !2, ..NONE });
        cases.push(c);
    }
    cases
}

/// the register sweeps each property adds to its case list
pub fn sweeps_for(prop: &str, r: &mut Rng, tier: &str) -> Vec<Case> {
    let n = if quick(tier) { 1 } else { 4 };
    let all = [0u8, 1, 2, 3, 4, 5, 7];
    let rows = all_rows();
    match prop {
        "C01" | "C02" | "C03" | "C04" => {
            let mut v = swr_cases(r, prop, &rows, &all, n);
            v.extend(swr_linked_cases(r, prop, &rows, if quick(tier) { 128 } else { 8 }));
            if prop != "C02" {
                v.extend(swr_pc_cases(r, prop, 5 * n, &[0xFFFF]));
            }
            // I and R as one 16-bit register (8): every value of either for the four instructions that touch them
            if prop == "C01" || prop == "C02" {
                let rows_ir = [(Page::ED, 0x57u8), (Page::ED, 0x5F), (Page::ED, 0x47), (Page::ED, 0x4F)];
                v.extend(swr_cases(r, prop, &rows_ir, &[8], 2 * n));
            }
            v
        }
        "C05" => swr_cases(r, prop, &rows, &[2, 5, 7], n),
        "C06" => {
            let mut v = swr_cases(r, prop, &rows, &[2, 3, 4, 5], n);
            v.extend(swr_pc_cases(r, prop, 6 * n, &[0xFFFF, 0x7FFF, 0x00FF]));
            v
        }
        "C10" => {
            // the model provably treats the DD and FD forms alike (C10_exec): each form of the implementation is
            // compared with it for every value of IX, IY, HL, AF and SP
            let rows10: Vec<(Page, u8)> = rows.iter().copied().filter(|(p, _)| matches!(p, Page::DD | Page::FD | Page::DDCB | Page::FDCB)).collect();
            swr_cases(r, prop, &rows10, &[3, 4, 7, 2, 5], n)
        }
        "C09" => {
            let mut rows9: Vec<(Page, u8)> = vec![];
            for op in [0xF5u8, 0xF1, 0x08, 0xD9, 0xC5, 0xD5, 0xE5, 0xC1, 0xD1, 0xE1, 0xEB, 0xE3, 0xF9] {
                rows9.push((Page::Base, op));
            }
            for op in [0xE5u8, 0xE1, 0xE3, 0xF9, 0x21, 0x22, 0x2A, 0x23, 0x2B, 0x09, 0x19, 0x29, 0x39,
                       // the halves IXH/IXL/IYH/IYL as 8-bit registers
                       0x24, 0x25, 0x26, 0x2C, 0x2D, 0x2E, 0x44, 0x45, 0x4C, 0x4D, 0x54, 0x55, 0x5C, 0x5D, 0x60, 0x61, 0x62, 0x63,
                       0x64, 0x65, 0x67, 0x68, 0x69, 0x6A, 0x6B, 0x6C, 0x6D, 0x6F, 0x7C, 0x7D, 0x84, 0x85, 0x8C, 0x8D, 0x94, 0x95,
                       0x9C, 0x9D, 0xA4, 0xA5, 0xAC, 0xAD, 0xB4, 0xB5, 0xBC, 0xBD] {
                rows9.push((Page::DD, op));
                rows9.push((Page::FD, op));
            }
            swr_cases(r, prop, &rows9, &all, 2 * n)
        }
        _ => vec![],
    }
}


// ---------------------------------------------------------------------------------------------
// API histories: what a host program may do with one CPU object, in any order
// ---------------------------------------------------------------------------------------------

/// projections of one history
#[derive(Clone, Copy)]
pub struct HistProj {
    pub x: Proj,
    pub t: Proj,
    /// reads, slices, disassembly, budget replies
    pub v: Proj,
    /// memory deltas
    pub d: Proj,
    /// ask for the memory delta after every n-th operation (0: only at the end)
    pub d_every: usize,
}

fn near(r: &mut Rng, s: &St) -> u16 {
    let t = s.top;
    match r.below(10) {
        0 => s.pc.wrapping_add(r.below(6) as u16).wrapping_sub(1),
        1 => s.sp.wrapping_sub(r.below(5) as u16).wrapping_add(1),
        2 => t.wrapping_sub(r.below(3) as u16),
        3 => t.wrapping_add(1 + r.below(2) as u16),
        4 => match s.rom { Some((a, b)) => r.pick(&[a.wrapping_sub(1), a, a.wrapping_add(1), b.wrapping_sub(1), b, b.wrapping_add(1)]), None => r.u16() },
        5 => r.pick(&[0u16, 1, 0xFFFF, 0xFFFE, 0x0066, 0x0038]),
        6 => s.pair(H).wrapping_add(r.below(3) as u16).wrapping_sub(1),
        _ => if t == 0xFFFF { r.u16() } else { (r.u16() as u32 % (t as u32 + 1)) as u16 },
    }
}

/// One history: `ops` is the alphabet with weights.  Operations: X T I(masked or not: any byte) N NN II WB WW
/// RB RW RLW RLD ROM SL CL CLTOP LB LBMISS DA DAPC SF SD PC REG WBPC NAP.
pub fn api_history(r: &mut Rng, tag: &str, key: &str, s: St, ops: &[(&str, u32)], len: usize, hp: HistProj) -> Case {
    let mut c = Case::new(tag.to_string());
    c.key = key.to_string();
    let total: u32 = ops.iter().map(|o| o.1).sum();
    let t = s.top as usize;
    let mut st = s.clone();
    c.push(Cmd::SN(Box::new(s)), P_NONE);
    for k in 0..len {
        let mut pickn = r.below(total as u64) as u32;
        let mut op = ops[0].0;
        for (name, w) in ops {
            if pickn < *w {
                op = name;
                break;
            }
            pickn -= w;
        }
        match op {
            "X" => { c.push(Cmd::X, hp.x); }
            "T" => { c.push(Cmd::T, hp.t); }
            "I" => { c.push(Cmd::I(if r.bool() { r.pick(&RST_OPS) } else { v8(r) }), P_NONE); }
            "N" => { c.push(Cmd::N, P_NONE); }
            "NN" => { c.push(Cmd::N, P_NONE); c.push(Cmd::N, P_NONE); }
            "II" => { c.push(Cmd::I(v8(r)), P_NONE); c.push(Cmd::I(r.pick(&RST_OPS)), P_NONE); }
            "WB" => { c.push(Cmd::WB(near(r, &st), r.u8() | 1), P_NONE); }
            "WW" => { c.push(Cmd::WW(near(r, &st), r.u16() | 0x0101), P_NONE); }
            "RB" => { c.push(Cmd::RB(near(r, &st)), hp.v); }
            "RW" => { c.push(Cmd::RW(near(r, &st)), hp.v); }
            "RLW" => { c.push(Cmd::RLW(near(r, &st)), hp.v); }
            "RLD" => { c.push(Cmd::RLD(near(r, &st)), hp.v); }
            "ROM" => {
                let a = near(r, &st);
                let b = a.wrapping_add(r.pick(&[0u16, 1, 2, 7, 0x100]));
                let (a, b) = if a <= b { (a, b) } else { (b, a) };
                st.rom = Some((a, b));
                c.push(Cmd::ROM(a, b), P_NONE);
            }
            "SL" => {
                let a = near(r, &st) as usize % (t + 1);
                let b = (a + r.below(40) as usize).min(t);
                c.push(Cmd::SL(a, b), hp.v);
            }
            "CL" => {
                let a = near(r, &st) as usize % (t + 1);
                let b = (a + r.below(40) as usize).min(t);
                c.push(Cmd::CL(a, b), P_NONE);
            }
            "CLTOP" => {
                let a = t - (r.below(4) as usize).min(t);
                c.push(Cmd::CL(a, t), P_NONE);
            }
            "LB" => {
                let org = near(r, &st) as usize % (t + 1);
                let len = r.below(((t + 1 - org) as u64).min(48) + 1) as usize;
                c.push(Cmd::LB(org as u16, Some(len), 0x200 + r.below(50) as u32), hp.v);
            }
            "LBMISS" => { c.push(Cmd::LB((near(r, &st) as usize % (t + 1)) as u16, None, r.below(2) as u32), hp.v); }
            "DA" => { c.push(Cmd::DA(near(r, &st)), hp.v); }
            "SF" => { c.push(Cmd::SF(r.pick(&[1u32, 2, 8, 16, 17, 28])), hp.v); }
            "SD" => { c.push(Cmd::SD(r.pick(&[1u32, 2, 4, 5, 8, 10, 20])), P_NONE); }
            "SFB" => {
                // a clock off the grid whose budget is robust for every slice duration the history may have set
                let f = r.pick(&[3.579545f32, 3.5469, 2.4576, 4.433619, 1.7897725]);
                if [1u32, 2, 4, 5, 8, 10, 20].iter().all(|d| matches!(budget_exact(f.to_bits(), *d), Some((_, true)))) {
                    c.push(Cmd::SFB(f.to_bits()), hp.v);
                }
            }
            "PC" => { let a = near(r, &st); st.pc = a; c.push(Cmd::SetPC(a), P_NONE); }
            "REG" => { c.push(Cmd::HostReg(r.pick(&[0u8, 1, 2, 3, 4, 5, 7]), v16(r)), P_NONE); }
            "WBPC" => { c.push(Cmd::WBPC(r.below(4) as i16 - 1, r.pick(&[0x00u8, 0x76, 0xC9, 0xCD, 0xCB, 0xDD, 0xED, 0xFD, 0x3E, 0xC3, 0xFF])), P_NONE); }
            "NAP" => { c.push(Cmd::Nap(1 + r.below(3) as u32), P_NONE); }
            _ => {}
        }
        if hp.d_every != 0 && k % hp.d_every == hp.d_every - 1 {
            c.push(Cmd::D, hp.d);
        }
    }
    c.push(Cmd::D, hp.d);
    c
}

/// a start state for histories: a program of control-relevant instructions at PC on a seeded image
pub fn hist_state(r: &mut Rng, k: usize) -> St {
    let mut s = rand_state(r);
    s = with_ctl(r, s);
    s.seed = SEEDS[k % 6];
    s.top = [0xFFFFu16, 0x03FF, 0xFFFF, 0x7FFF][k % 4];
    if s.top != 0xFFFF {
        s.pc %= s.top + 1;
        s.sp = (s.sp % (s.top + 1)) | 1;
    }
    if k % 3 == 0 {
        let a = near(r, &s);
        s.rom = Some((a, a.wrapping_add(r.pick(&[0u16, 1, 3, 0x40])).max(a)));
    }
    let code: [&[u8]; 12] = [&[0xFB], &[0xF3], &[0x76], &[0xED, 0x45], &[0xED, 0x4D], &[0xED, 0x56], &[0xED, 0x5E], &[0xED, 0x57],
                             &[0xC7], &[0xCD, 0x00, 0x01], &[0x00], &[0xF5]];
    let mut a = s.pc;
    for _ in 0..r.below(5) {
        let b = code[r.below(12) as usize];
        s.poke(a, b);
        a = a.wrapping_add(b.len() as u16);
    }
    s
}

/// the API histories each property adds to its case list
pub fn hist_for(prop: &str, r: &mut Rng, tier: &str) -> Vec<Case> {
    let q = quick(tier);
    let mut cases = vec![];
    let v = Proj { other: true, ..NONE };
    let mem = p_mem();
    let (n, len): (usize, usize) = match prop {
        "C07" | "C08" | "C20" => (if q { 300 } else { 6000 }, 30),
        "C11" | "C13" | "C14" => (if q { 400 } else { 8000 }, 24),
        "C12" => (if q { 300 } else { 6000 }, 40),
        "C15" | "C16" => (if q { 300 } else { 6000 }, 24),
        "C17" => (if q { 300 } else { 6000 }, 40),
        "C18" => (if q { 200 } else { 4000 }, 300),
        _ => (0, 0),
    };
    for k in 0..n {
        let mut s = hist_state(r, k);
        let (ops, hp): (Vec<(&str, u32)>, HistProj) = match prop {
            // ROM bytes survive everything the CPU and the byte/word stores do, whatever the host does around them
            "C07" => {
                if s.rom.is_none() {
                    let a = near(r, &s);
                    s.rom = Some((a, a.wrapping_add(r.pick(&[0u16, 1, 3, 0x40])).max(a)));
                }
                (vec![("X", 8), ("WB", 6), ("WW", 6), ("ROM", 1), ("LBMISS", 2), ("I", 1), ("N", 1), ("PC", 1), ("REG", 2), ("RB", 1), ("SL", 1), ("DA", 1)],
                 HistProj { x: P_NONE, t: P_NONE, v, d: mem, d_every: 3 })
            }
            "C08" => {
                s.halt = true;
                (vec![("WB", 8), ("WW", 8), ("RB", 5), ("RW", 5), ("RLW", 3), ("RLD", 3), ("ROM", 1), ("CL", 2), ("CLTOP", 2), ("SL", 2), ("LB", 1), ("LBMISS", 1)],
                 HistProj { x: P_NONE, t: P_NONE, v, d: mem, d_every: 4 })
            }
            "C20" => {
                s.halt = true;
                s.top = [0x3Fu16, 0x3FF, 0xFFFF][k % 3];
                if s.top != 0xFFFF {
                    s.pc %= s.top + 1;
                }
                (vec![("LB", 6), ("LBMISS", 2), ("CL", 4), ("CLTOP", 2), ("SL", 4), ("WB", 3), ("WW", 2), ("RB", 2), ("RW", 1), ("ROM", 1)],
                 HistProj { x: P_NONE, t: P_NONE, v, d: mem, d_every: 2 })
            }
            "C11" | "C13" | "C14" => {
                let pj = p_ctl();
                (vec![("X", 12), ("I", 4), ("N", 2), ("NN", 2), ("II", 1), ("WBPC", 2), ("PC", 1), ("REG", 1), ("T", 1)],
                 HistProj { x: pj, t: Proj { slice: false, ..pj }, v, d: mem, d_every: 8 })
            }
            // the model provably does not see a masked request (C12_step, C12_timed): the implementation is compared with
            // it on everything but the latch itself, over programs of control instructions with requests in between
            "C12" => {
                let pj = Proj { r: false, dbg: 0, latch: false, slice: true, ..FULL };
                (vec![("X", 14), ("T", 3), ("I", 6), ("II", 1), ("N", 1), ("WBPC", 1), ("REG", 1)],
                 HistProj { x: pj, t: pj, v, d: mem, d_every: 8 })
            }
            "C15" => (vec![("X", 8), ("DAPC", 0), ("DA", 8), ("WBPC", 3), ("WB", 2), ("PC", 2), ("I", 1), ("REG", 1)],
                      HistProj { x: Proj { pc: true, ..NONE }, t: P_NONE, v: Proj { other: true, da_size_only: true, ..NONE }, d: P_NONE, d_every: 0 }),
            "C16" => (vec![("X", 6), ("DA", 10), ("WBPC", 2), ("WB", 3), ("WW", 2), ("PC", 3), ("I", 1), ("REG", 3)],
                      HistProj { x: P_NONE, t: P_NONE, v, d: P_NONE, d_every: 0 }),
            "C17" => {
                // set_freq is specified for slice durations that divide 1000
                s.sdur = r.pick(&[1u32, 2, 4, 5, 8, 10, 20]);
                let pj = Proj { r: false, dbg: 0, slice: true, ..FULL };
                (vec![("X", 10), ("T", 4), ("I", 2), ("N", 1), ("NN", 1), ("WB", 2), ("WW", 1), ("WBPC", 1), ("ROM", 1), ("LB", 1), ("LBMISS", 1), ("CL", 1),
                      ("DA", 1), ("RB", 1), ("SF", 1), ("SD", 1), ("PC", 1), ("REG", 1)],
                 HistProj { x: pj, t: pj, v, d: mem, d_every: 8 })
            }
            "C18" => {
                s.smax = [3u32, 40, 200, 1000, 35000][k % 5];
                s.sdur = [1u32, 4, 20][k % 3];
                s.scur = if k % 2 == 0 { 0 } else { r.below(s.smax as u64 + 100) as u32 };
                let pj = Proj { slice: true, ..NONE };
                (vec![("T", 60), ("SF", 1), ("SD", 1), ("I", 2), ("N", 1), ("X", 2), ("WBPC", 1), ("PC", 1)],
                 HistProj { x: P_NONE, t: pj, v, d: P_NONE, d_every: 0 })
            }
            _ => (vec![], HistProj { x: P_NONE, t: P_NONE, v, d: P_NONE, d_every: 0 }),
        };
        let ops: Vec<(&str, u32)> = ops.into_iter().filter(|o| o.1 > 0).collect();
        if ops.is_empty() {
            break;
        }
        cases.push(api_history(r, &format!("api-history/{}", k % 8), "api-history", s, &ops, len, hp));
    }
    if prop == "C12" {
        // twins on fresh objects: a masked request must be invisible to timed stepping as well (same slice counter,
        // same calls at which a sleep is requested)
        for k in 0..n {
            let mut s = hist_state(r, k);
            s.iff1 = false;
            s.halt = false;
            s.int = None;
            s.nmi = false;
            s.pc = 0x40 + s.pc % (s.top - 0x100);
            s.smax = [3u32, 40, 200, 1000][k % 4];
            s.sdur = 1;
            s.scur = 0;
            // a program that keeps interrupts disabled: no EI / RETN in the image region it runs through is not
            // guaranteed, so the twins are compared only while IFF1 stays clear in both (relation guarded by equality of ctl)
            let mut c = Case::new(format!("timed-masked/{}", k % 4));
            c.key = "timed-masked".into();
            let pj = Proj { r: false, dbg: 0, latch: false, slice: true, ..FULL };
            let at: Vec<usize> = (0..3).map(|_| r.below(len as u64) as usize).collect();
            let pc = s.pc;
            // DI-only straight-line code: NOPs, loads and arithmetic, no EI/RETN/HALT
            let fill: Vec<u8> = (0..len * 2).map(|_| r.pick(&[0x00u8, 0x3C, 0x04, 0x0D, 0x87, 0xA8, 0x2F, 0x37, 0xF3, 0x23, 0x1B])).collect();
            s.poke(pc, &fill);
            let mut runs: Vec<Vec<usize>> = vec![];
            for twin in 0..2 {
                c.push(Cmd::SN(Box::new(s.clone())), P_NONE);
                let mut ix = vec![];
                for j in 0..len {
                    if twin == 1 && at.contains(&j) {
                        c.push(Cmd::I(if j % 2 == 0 { r.pick(&RST_OPS) } else { v8(r) }), P_NONE);
                    }
                    ix.push(c.push(Cmd::T, Proj { slice: true, ..NONE }));
                }
                ix.push(c.push(Cmd::D, P_NONE));
                runs.push(ix);
            }
            for j in 0..len {
                c.rels.push(Rel { a: runs[0][j], b: runs[1][j], proj: pj, swap_xy: false, what: "masked request invisible to timed stepping" });
            }
            c.rels.push(Rel { a: runs[0][len], b: runs[1][len], proj: p_mem(), swap_xy: false, what: "masked request invisible (memory)" });
            cases.push(c);
        }
    }
    cases
}

/// the projection a property applies to a line of a history, by command (used when a failing history is minimised)
pub fn hist_line_proj(prop: &str, cmd: &Cmd) -> Proj {
    let v = Proj { other: true, ..NONE };
    let mem = p_mem();
    let ctl = p_ctl();
    let (x, t, vv, d) = match prop {
        "C07" | "C08" | "C20" => (P_NONE, P_NONE, v, mem),
        "C11" | "C13" | "C14" => (ctl, Proj { slice: false, ..ctl }, v, mem),
        "C15" => (Proj { pc: true, ..NONE }, P_NONE, Proj { other: true, da_size_only: true, ..NONE }, P_NONE),
        "C16" => (P_NONE, P_NONE, v, P_NONE),
        "C17" => { let pj = Proj { r: false, dbg: 0, slice: true, ..FULL }; (pj, pj, v, mem) }
        "C12" => { let pj = Proj { r: false, dbg: 0, latch: false, slice: true, ..FULL }; (pj, pj, v, mem) }
        "C18" => (P_NONE, Proj { slice: true, ..NONE }, v, P_NONE),
        _ => (P_NONE, P_NONE, P_NONE, P_NONE),
    };
    match cmd {
        Cmd::X => x,
        Cmd::T => t,
        Cmd::D => d,
        Cmd::S(_) | Cmd::SN(_) | Cmd::SR(_) | Cmd::P(_) | Cmd::I(_) | Cmd::N | Cmd::WB(..) | Cmd::WW(..) | Cmd::ROM(..) | Cmd::CL(..) | Cmd::SD(_) | Cmd::Nap(_) => P_NONE,
        _ => vv,
    }
}


// ---------------------------------------------------------------------------------------------
// instructions that straddle the top of a memory smaller than 64K (bytes above the top read as 0,
// they do NOT come from address 0), with a non-zero image at the bottom of the memory
// ---------------------------------------------------------------------------------------------
pub fn straddle_cases(r: &mut Rng, prop: &str, tier: &str) -> Vec<Case> {
    let (px, pd, pa): (Proj, Proj, Proj) = match prop {
        "C01" => (p_regs(), p_mem(), P_NONE),
        "C03" => (Proj { pc: true, sp: true, ..NONE }, P_NONE, P_NONE),
        "C04" => (Proj { mode: Mode::Timing, ..NONE }, P_NONE, P_NONE),
        "C05" => (Proj { r: false, dbg: 1, mode: Mode::Unknown, ..FULL }, p_mem(), P_NONE),
        "C06" => (Proj { regs: true, sp: true, pc: true, ctl: true, ..NONE }, p_mem(), Proj { other: true, ..NONE }),
        "C15" => (Proj { pc: true, ..NONE }, P_NONE, Proj { other: true, da_size_only: true, ..NONE }),
        "C16" => (P_NONE, P_NONE, Proj { other: true, ..NONE }),
        _ => return vec![],
    };
    let tops: [u16; 4] = [0x00FF, 0x7FFF, 0x8000, 0x3FFE];
    let mut cases = vec![];
    for (ri, (page, op)) in all_rows().into_iter().enumerate() {
        for k in 0..4u16 {
            let ntop = if quick(tier) { 1 } else { 4 };
            for ti in 0..ntop {
                let top = tops[(ri + k as usize + ti) % 4];
                let mut s = state_for0(r, page, op);
                let code = encode(page, op, v8(r) | 1, v8(r) | 1, v8(r) | 1);
                s.ovr.clear();
                s.top = top;
                s.rom = None;
                s.seed = SEEDS[1 + (ri + k as usize) % 5];
                s.pc = top - k;
                s.poke(top - k, &code);
                s.ovr.retain(|(a, _)| *a <= top && *a >= top - k);
                // the first bytes of the memory are what a wrong wrap would pick up: make them opcode-like
                s.poke(0, &[r.pick(&[0x06u8, 0x3E, 0x36, 0x46, 0xCB, 0x21, 0x7E, 0x30]), v8(r) | 1, v8(r) | 1, v8(r) | 1]);
                if s.sp > top {
                    s.sp = top - (r.below(8) as u16);
                }
                let mut c = Case::new(format!("{}/straddle{}", tagof(page, op), k));
                c.key = tagof(page, op);
                c.push(sbox(s.clone()), P_NONE);
                if pa != P_NONE {
                    c.push(Cmd::DA(s.pc), pa);
                }
                c.push(Cmd::X, px);
                if pd != P_NONE {
                    c.push(Cmd::D, pd);
                }
                cases.push(c);
            }
        }
    }
    cases
}


// ---------------------------------------------------------------------------------------------
// every encoding met by an interrupt: the row's instruction is the one that is interrupted (at PC), the one
// the request supplies, or the first instruction of the service routine
// ---------------------------------------------------------------------------------------------
pub fn ctl_cases(r: &mut Rng, prop: &str, tier: &str) -> Vec<Case> {
    let (px, pd): (Proj, Proj) = match prop {
        "C01" => (p_regs(), p_mem()),
        "C03" => (Proj { pc: true, sp: true, ..NONE }, p_mem()),
        "C04" => (Proj { mode: Mode::Timing, ..NONE }, P_NONE),
        "C05" => (Proj { r: false, dbg: 1, latch: false, mode: Mode::Unknown, ..FULL }, p_mem()),
        "C06" => (Proj { regs: true, sp: true, pc: true, ctl: true, ..NONE }, p_mem()),
        "C09" => (Proj { fmask: 0xFF, ..p_regs() }, p_mem()),
        "C15" => (Proj { pc: true, sp: true, ..NONE }, p_mem()),
        "C11" | "C13" | "C14" => (Proj { fmask: 0x04, ..p_ctl() }, p_mem()),
        _ => return vec![],
    };
    let rows: Vec<(Page, u8)> = if prop == "C09" {
        [0xF5u8, 0xF1, 0x08, 0xD9, 0xC5, 0xE5, 0xE1, 0xEB, 0xE3].iter().map(|o| (Page::Base, *o)).collect()
    } else {
        all_rows()
    };
    let nvar = if quick(tier) { 10 } else { 30 };
    let mut cases = vec![];
    for (ri, &(page, op)) in rows.iter().enumerate() {
        for v in 0..nvar {
            let v = if quick(tier) { v } else { v % 10 };
            let mut s = state_for(r, page, op);
            s.top = 0xFFFF;
            s.rom = None;
            s.seed = SEEDS[1 + (ri + v) % 5];
            s.halt = false;
            s.int = None;
            s.nmi = false;
            // keep PC, SP and the vectors apart
            s.pc = 0x0200 + (s.pc & 0x7FFF);
            s.sp = 0xF000 | (s.sp & 0x0FFE);
            let code = encode(page, op, v8(r) | 1, v8(r) | 1, v8(r) | 1);
            let len: usize = match page { Page::Base => 3, Page::DDCB | Page::FDCB => 4, _ => 4 };
            s.ovr.clear();
            let pc = s.pc;
            s.poke(pc, &code[..len]);
            // what lies below PC is sometimes an LD A,I / LD A,R, a DI or an EI (the previous instruction)
            match (ri + v) % 5 {
                0 => s.poke(pc.wrapping_sub(2), &[0xED, 0x57]),
                1 => s.poke(pc.wrapping_sub(2), &[0xED, 0x5F]),
                2 => s.poke(pc.wrapping_sub(1), &[0xF3]),
                3 => s.poke(pc.wrapping_sub(1), &[0xFB]),
                _ => {}
            }
            let first = code[0];
            let rst = r.pick(&RST_OPS);
            let mut at_vector = |s: &mut St, a: u16| s.poke(a, &code[..len]);
            match v {
                // NMI alone: the row is the first instruction of the routine
                0 => { s.nmi = true; s.iff1 = r.bool(); at_vector(&mut s, 0x0066); }
                // accepted mode 0: the request supplies the row's own first byte (one-byte rows are executed that way)
                1 => { s.iff1 = true; s.iff2 = true; s.im = 0; s.int = Some(first); }
                // accepted mode 0 with a restart; the byte at PC is the same restart when the row is one
                2 => { s.iff1 = true; s.iff2 = true; s.im = 0; s.int = Some(if RST_OPS.contains(&first) { first } else { rst });
                       let t = (s.int.unwrap() & 0x38) as u16; at_vector(&mut s, t); }
                // accepted mode 1 (the byte is irrelevant): the row at 0x0038
                3 => { s.iff1 = true; s.iff2 = true; s.im = 1; s.int = Some(v8(r)); at_vector(&mut s, 0x0038); }
                // accepted mode 2: the row at the routine the table points to
                4 => { s.iff1 = true; s.iff2 = true; s.im = 2; let b = v8(r) & 0xFE; s.int = Some(b); s.regs[I] = 0x80;
                       s.poke(0x8000 | b as u16, &[0x00, 0x90]); at_vector(&mut s, 0x9000); }
                // NMI and an enabled request in the same step
                5 => { s.nmi = true; s.iff1 = true; s.iff2 = true; s.im = (ri % 3) as u8; s.int = Some(if ri % 2 == 0 { rst } else { first });
                       s.regs[I] = 0x80; at_vector(&mut s, 0x0066); }
                // halted: woken by NMI, by an enabled request, by both; idle with a masked request
                6 => { s.halt = true; s.nmi = true; at_vector(&mut s, 0x0066); }
                7 => { s.halt = true; s.iff1 = true; s.iff2 = true; s.im = 1; s.int = Some(v8(r)); at_vector(&mut s, 0x0038); }
                8 => { s.halt = true; s.nmi = true; s.iff1 = true; s.iff2 = true; s.im = (ri % 3) as u8; s.int = Some(rst); s.regs[I] = 0x80;
                       at_vector(&mut s, 0x0066); }
                _ => { s.halt = ri % 2 == 0; s.iff1 = false; s.iff2 = true; s.int = Some(if ri % 3 == 0 { first } else { rst }); }
            }
            // the diagnostic switches only observe: any combination may be on
            let m = r.below(16) as u8;
            if (ri + v) % 3 == 0 {
                s.dbg = [m & 1 != 0, m & 2 != 0, m & 4 != 0, m & 8 != 0];
            }
            let mut c = Case::new(format!("{}/irq{}", tagof(page, op), v));
            c.key = tagof(page, op);
            c.push(sbox(s), P_NONE);
            c.push(Cmd::X, px);
            if pd != P_NONE {
                c.push(Cmd::D, pd);
            }
            // one more step: what the first one left behind (enable state, return address) shows here
            c.push(Cmd::X, px);
            cases.push(c);
            if v == 0 {
                // an instruction that transfers control to ITSELF (JP $, JR $, DJNZ $, JP (HL) with HL = PC, a RET whose
                // stacked word is its own address), executed once or twice, then interrupted: the pushed address is its own
                let mut s = state_for(r, page, op);
                s.top = 0xFFFF; s.rom = None; s.halt = false; s.int = None; s.nmi = false;
                s.seed = SEEDS[1 + ri % 5];
                s.pc = 0x0200 + (s.pc & 0x7FFF);
                s.sp = 0xF000 | (s.sp & 0x0FFE);
                s.ovr.clear();
                let pc = s.pc;
                let code = encode(page, op, 0xFE, v8(r), v8(r));
                s.poke(pc, &code[..len]);
                self_target(&mut s, page, 0);
                s.iff1 = ri % 2 == 0; s.iff2 = s.iff1; s.im = 1;
                s.poke(0x0066, &[0x00, 0xED, 0x45]);
                s.poke(0x0038, &[0x00, 0xFB, 0xC9]);
                let mut c = Case::new(format!("{}/self-irq", tagof(page, op)));
                c.key = tagof(page, op);
                c.push(sbox(s), P_NONE);
                c.push(Cmd::X, px);
                if ri % 3 == 0 {
                    c.push(Cmd::X, px);
                }
                c.push(if ri % 2 == 0 { Cmd::I(0xFF) } else { Cmd::N }, P_NONE);
                c.push(Cmd::X, px);
                if pd != P_NONE {
                    c.push(Cmd::D, pd);
                }
                c.push(Cmd::X, px);
                c.push(Cmd::X, px);
                cases.push(c);
            }
        }
    }
    cases
}


// ---------------------------------------------------------------------------------------------
// long histories on one object: counters and depths the library might keep wrap or saturate only here
// ---------------------------------------------------------------------------------------------
pub fn long_cases(r: &mut Rng, prop: &str, tier: &str) -> Vec<Case> {
    let mut cases = vec![];
    let reps = if quick(tier) { 1 } else { 4 };
    if prop == "C06" || prop == "C18" {
        for (k, sdur) in [0u32, 0, 1, 1, 2, 16].iter().enumerate() {
            let mut s = rand_state(r);
            s.seed = SEEDS[1 + k % 5];
            s.halt = false; s.int = None; s.nmi = false;
            s.sdur = *sdur;
            s.smax = 20;
            s.scur = 21;
            let mut c = Case::new(format!("slice-end/d{}", sdur));
            c.key = "slice-end".into();
            c.push(Cmd::SN(Box::new(s)), P_NONE);
            let pj = Proj { slice: true, ..NONE };
            for j in 0..40 {
                if k % 2 == 1 && j % 7 == 3 {
                    c.push(Cmd::Nap(1), P_NONE);
                }
                c.push(Cmd::T, pj);
            }
            cases.push(c);
        }
    }
    for rep in 0..reps {
        match prop {
            // a CPU that stays halted for a long time: every step 4 T-states, nothing changes
            "C04" | "C14" | "C18" => {
                for (iff1, req) in [(false, None), (false, Some(0xFFu8)), (true, None)] {
                    let mut s = rand_state(r);
                    s.seed = SEEDS[1 + rep % 5];
                    s.halt = true;
                    s.nmi = false;
                    s.iff1 = iff1;
                    s.int = req;
                    let pc = s.pc;
                    s.poke(pc, &[0x76]);
                    let mut c = Case::new(format!("long/halt{}", iff1 as u8));
                    c.key = "long-halt".into();
                    c.push(Cmd::SN(Box::new(s)), P_NONE);
                    let pj = match prop {
                        "C04" => Proj { cyc: true, ..NONE },
                        "C18" => Proj { slice: true, ..NONE },
                        _ => Proj { cyc: true, ..p_ctl() },
                    };
                    for k in 0..700 {
                        c.push(if prop == "C18" { Cmd::T } else { Cmd::X }, pj);
                        if k == 300 && req.is_none() && !iff1 {
                            c.push(Cmd::I(0xE7), P_NONE);
                        }
                    }
                    // then it is woken
                    c.push(Cmd::N, P_NONE);
                    c.push(if prop == "C18" { Cmd::T } else { Cmd::X }, pj);
                    c.push(Cmd::D, p_mem());
                    cases.push(c);
                }
            }
            // deep call nesting, many interrupts served, on one object
            "C03" | "C11" | "C13" | "C17" | "C06" => {
                let pj = if prop == "C17" || prop == "C06" { Proj { r: false, dbg: 0, ..FULL } } else { p_ctl() };
                // (a) a routine that calls itself: 400 nested CALLs, the stack runs through memory
                let mut s = rand_state(r);
                s.seed = 0;
                s.halt = false; s.nmi = false; s.int = None;
                s.pc = 0x0100;
                s.sp = 0xF000;
                s.poke(0x0100, &[0x00, 0xCD, 0x00, 0x01]);
                let mut c = Case::new("long/recursion".into());
                c.key = "long-recursion".into();
                c.push(Cmd::SN(Box::new(s)), P_NONE);
                for _ in 0..800 {
                    c.push(Cmd::X, pj);
                }
                c.push(Cmd::D, p_mem());
                cases.push(c);
                // (b) 300 interrupts served (mode 1, routine EI; RETI), then 300 NMIs (routine RETN), with requests
                // that are not returned from in between (routine EI; JR back to the main loop)
                for variant in 0..3 {
                    let mut s = rand_state(r);
                    s.seed = 0;
                    s.halt = false; s.nmi = false; s.int = None;
                    s.im = 1; s.iff1 = true; s.iff2 = true;
                    s.pc = 0x0100;
                    s.sp = 0xF000;
                    s.poke(0x0100, &[0x00, 0x18, 0xFD]);                       // main: NOP ; JR main
                    match variant {
                        0 => s.poke(0x0038, &[0xFB, 0xED, 0x4D]),               // EI ; RETI
                        1 => s.poke(0x0038, &[0xFB, 0xC3, 0x00, 0x01]),         // EI ; JP main (never returns: the stack grows)
                        _ => s.poke(0x0038, &[0xFB, 0xC9]),                     // EI ; RET
                    }
                    s.poke(0x0066, &[0xED, 0x45]);                              // RETN
                    let mut c = Case::new(format!("long/interrupts{}", variant));
                    c.key = "long-interrupts".into();
                    c.push(Cmd::SN(Box::new(s)), P_NONE);
                    for k in 0..300 {
                        c.push(Cmd::I(v8(r)), P_NONE);
                        for _ in 0..4 {
                            c.push(Cmd::X, pj);
                        }
                        if k % 3 == 2 {
                            c.push(Cmd::N, P_NONE);
                            c.push(Cmd::X, pj);
                            c.push(Cmd::X, pj);
                        }
                    }
                    c.push(Cmd::D, p_mem());
                    cases.push(c);
                }
                // (c) the same mode-2 table entry used twice with the table word rewritten in between; the same for the
                // bytes at 0x0038 / 0x0066 (whatever was fetched or looked up the first time must not be remembered)
                for variant in 0..4 {
                    let mut s = rand_state(r);
                    s.seed = 0;
                    s.halt = false; s.nmi = false; s.int = None;
                    s.im = 2; s.iff1 = true; s.iff2 = true;
                    s.regs[I] = 0x80;
                    s.pc = 0x0100;
                    s.sp = 0xF000;
                    s.poke(0x0100, &[0x00, 0x18, 0xFD]);
                    s.poke(0x8010, &[0x00, 0x20]);
                    s.poke(0x2000, &[0xFB, 0xED, 0x4D]);
                    s.poke(0x3000, &[0x3C, 0xFB, 0xED, 0x4D]);
                    let mut c = Case::new(format!("long/im2-twice{}", variant));
                    c.key = "long-im2".into();
                    c.push(Cmd::SN(Box::new(s)), P_NONE);
                    for round in 0..4 {
                        c.push(Cmd::I(0x10), P_NONE);
                        for _ in 0..(3 + variant) {
                            c.push(Cmd::X, pj);
                        }
                        // re-point the vector (alternating), through a word store or two byte stores
                        let target: u16 = if round % 2 == 0 { 0x3000 } else { 0x2000 };
                        if variant % 2 == 0 {
                            c.push(Cmd::WW(0x8010, target), P_NONE);
                        } else {
                            c.push(Cmd::WB(0x8010, target as u8), P_NONE);
                            c.push(Cmd::WB(0x8011, (target >> 8) as u8), P_NONE);
                        }
                    }
                    c.push(Cmd::D, p_mem());
                    cases.push(c);
                }
            }
            // the call that closes a slice on a fresh object (almost no host time has passed) and after a short stall, for very
            // short slices, zero included: the requested sleep is computed without aborting and never exceeds the duration
            "C06x" | "C18x" => {}
            // two prefixed instructions in a row on one object: whatever the first leaves behind inside the library
            // (a remembered prefix, an index selection) must not reach the second
            "C10" => {
                let firsts: [&[u8]; 10] = [&[0xFD, 0xCB, 0x01, 0x06], &[0xDD, 0xCB, 0x01, 0x06], &[0xFD, 0x23], &[0xDD, 0x23], &[0xFD, 0xCB, 0x02, 0x46],
                                           &[0xED, 0x44], &[0xCB, 0x00], &[0xFD, 0x7E, 0x01], &[0xDD, 0x36, 0x01, 0x22], &[0x00]];
                let pj = Proj { fmask: 0xFF, regs: true, sp: true, pc: true, cyc: true, ..NONE };
                for (page, op) in all_rows() {
                    if !matches!(page, Page::DD | Page::FD | Page::DDCB | Page::FDCB) {
                        continue;
                    }
                    for (fi, f) in firsts.iter().enumerate() {
                        if !quick(tier) || fi == 0 || fi == 1 || fi == 4 || (fi + op as usize + rep) % 5 == 0 {
                            let mut s = rand_state(r);
                            s.seed = SEEDS[1 + fi % 5];
                            s.halt = false; s.int = None; s.nmi = false;
                            s.pc = 0x0100 + (s.pc & 0x0FFF);
                            s.sp = 0xF000;
                            s.set_pair(IXH, 0x4000 + (r.u16() & 0x0FFF));
                            s.set_pair(IYH, 0x6000 + (r.u16() & 0x0FFF));
                            let code = encode(page, op, v8(r) & 0x7F, v8(r), v8(r));
                            let pc = s.pc;
                            s.poke(pc, f);
                            // an unprefixed instruction in between half of the time
                            let mid: &[u8] = if (fi + op as usize) % 2 == 0 { &[0x00] } else { &[] };
                            s.poke(pc.wrapping_add(f.len() as u16), mid);
                            s.poke(pc.wrapping_add((f.len() + mid.len()) as u16), &code);
                            let mut c = Case::new(format!("{}/after{}", tagof(page, op), fi));
                            c.key = tagof(page, op);
                            c.push(Cmd::SN(Box::new(s)), P_NONE);
                            for _ in 0..(2 + mid.len()) {
                                c.push(Cmd::X, pj);
                            }
                            c.push(Cmd::D, p_mem());
                            cases.push(c);
                        }
                    }
                }
            }
            // exactly 256 and exactly 65,536 effective stores between two identical host calls
            "C20" | "C08" | "C07" => {
                for n in [255usize, 256, 65535, 65536] {
                    let top: u16 = 0x03FF;
                    let mut s = St::default();
                    s.top = top;
                    s.seed = SEEDS[1 + rep % 5];
                    if prop == "C07" {
                        s.rom = Some((0x0100, 0x017F));
                    }
                    let v = Proj { other: true, ..NONE };
                    let mut c = Case::new(format!("long/stores{}", n));
                    c.key = "long-stores".into();
                    c.push(Cmd::SN(Box::new(s)), P_NONE);
                    let (a, b) = (0x0200usize, 0x027F);
                    let first = |c: &mut Case| {
                        c.push(Cmd::CL(a, b), P_NONE);
                        c.push(Cmd::SL(a, b), v);
                        c.push(Cmd::LB(0x0300, Some(16), 0x33), v);
                        c.push(Cmd::ROM(0x0100, 0x017F), P_NONE);
                        c.push(Cmd::D, p_mem());
                    };
                    first(&mut c);
                    for k in 0..n {
                        // stores all over the memory, the slice included; word stores count twice
                        let addr = ((k * 37) % 0x0400) as u16;
                        if addr >= 0x0100 && addr < 0x0180 {
                            c.push(Cmd::WB(0x0280 + (k % 64) as u16, (k as u8) | 1), P_NONE);
                        } else {
                            c.push(Cmd::WB(addr, (k as u8) | 1), P_NONE);
                        }
                    }
                    first(&mut c);
                    c.push(Cmd::WB(0x0140, 0x5A), P_NONE);
                    c.push(Cmd::RB(0x0140), v);
                    cases.push(c);
                }
            }
            _ => {}
        }
    }
    cases
}


// ---------------------------------------------------------------------------------------------
// every encoding with a ROM window (one byte, two bytes, reversed = empty, up to the end of the address space) or the
// top of a small memory placed exactly at each address the instruction may touch
// ---------------------------------------------------------------------------------------------
pub fn rom_cases(r: &mut Rng, prop: &str, tier: &str) -> Vec<Case> {
    let (px, pd): (Proj, Proj) = match prop {
        "C01" => (p_regs(), p_mem()),
        "C02" => (Proj { fmask: 0xD7, mode: Mode::Flags, ..NONE }, P_NONE),
        "C03" => (Proj { pc: true, sp: true, ..NONE }, p_mem()),
        "C07" | "C19" => (P_NONE, p_mem()),
        "C05" => (Proj { r: false, dbg: 1, mode: Mode::Unknown, ..FULL }, p_mem()),
        "C06" => (Proj { regs: true, sp: true, pc: true, ctl: true, ..NONE }, p_mem()),
        _ => return vec![],
    };
    let nrep = if quick(tier) { 1 } else { 4 };
    let mut cases = vec![];
    for (ri, (page, op)) in all_rows().into_iter().enumerate() {
        for rep in 0..nrep {
            let mut base = state_for0(r, page, op);
            base.top = 0xFFFF;
            base.rom = None;
            base.halt = false;
            base.int = None;
            base.nmi = false;
            base.seed = SEEDS[1 + (ri + rep) % 5];
            base.pc = 0x0100 + (base.pc & 0x3FFF);
            let code = encode(page, op, v8(r), v8(r), v8(r));
            base.ovr.clear();
            let pc = base.pc;
            base.poke(pc, &code);
            // pointers well inside the memory and away from the code
            for hi in [B, D, H, IXH, IYH] {
                let v = 0x5000 + (r.u16() & 0x3FFF);
                base.set_pair(hi, v);
            }
            base.sp = 0x9000 + (r.u16() & 0x0FFE);
            if is_block_repeat(page, op) {
                base.set_pair(B, 1 + r.below(4) as u16);
            }
            let d_at = |k: u16| code[k as usize];
            let sext = |b: u8| if b < 0x80 { b as u16 } else { 0xFF00 | b as u16 };
            let nn1 = (d_at(2) as u16) << 8 | d_at(1) as u16;
            let nn2 = (d_at(3) as u16) << 8 | d_at(2) as u16;
            let cands: [u16; 9] = [
                base.pair(H), base.pair(D), base.pair(B), base.sp.wrapping_sub(2), base.sp.wrapping_sub(1), base.sp,
                base.pair(IXH).wrapping_add(sext(d_at(2))), base.pair(IYH).wrapping_add(sext(d_at(2))),
                if page == Page::Base { nn1 } else { nn2 },
            ];
            if is_block_repeat(page, op) || (page == Page::ED && matches!(op, 0xA0 | 0xA8)) {
                // the fill idiom (destination one ahead of / behind the source) running into an obstacle: the bytes
                // behind it must receive what the source holds THEN, not the fill byte
                let up = op & 0x08 == 0;
                let hl = base.pair(H);
                base.set_pair(D, if up { hl.wrapping_add(1) } else { hl.wrapping_sub(1) });
                base.set_pair(B, 6 + r.below(8) as u16);
            }
            let cands: [u16; 9] = if is_block_repeat(page, op) {
                let de = base.pair(D);
                let up = op & 0x08 == 0;
                let step = |k: u16| if up { de.wrapping_add(k) } else { de.wrapping_sub(k) };
                [step(2), step(3), step(1), cands[3], cands[4], step(4), cands[6], cands[7], step(0)]
            } else {
                cands
            };
            for (ci, &c) in cands.iter().enumerate() {
              for variant in [0usize, 1 + (ci + ri + rep) % 5] {
                let mut s = base.clone();
                match variant {
                    0 => s.rom = Some((c, c)),
                    1 => s.rom = Some((c.wrapping_add(1), c.wrapping_sub(1))),
                    2 => s.rom = Some((c.wrapping_sub(1), c)),
                    3 => s.rom = Some((c, c.wrapping_add(1))),
                    4 => s.rom = Some((c, 0xFFFF)),
                    _ => {
                        // the memory ends just below the address (reads there give 0, stores are dropped)
                        if c > 0x4200 {
                            s.top = c - 1;
                            s.ovr.retain(|(a, _)| *a <= c - 1);
                        } else {
                            s.rom = Some((0, c));
                        }
                    }
                }
                let mut c2 = Case::new(format!("{}/rom{}", tagof(page, op), variant));
                c2.key = tagof(page, op);
                c2.push(sbox(s), P_NONE);
                c2.push(Cmd::X, px);
                if pd != P_NONE {
                    c2.push(Cmd::D, pd);
                }
                cases.push(c2);
              }
            }
        }
    }
    cases
}
