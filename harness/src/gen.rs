//! Boundary-biased, seeded generators of machine states and encodings.

use crate::proto::*;

pub const EDGE8: [u8; 8] = [0x00, 0x01, 0x0F, 0x10, 0x7F, 0x80, 0xFE, 0xFF];
pub const EDGE16: [u16; 14] = [
    0x0000, 0x0001, 0x0002, 0x007F, 0x0080, 0x00FF, 0x0100, 0x7FFF, 0x8000, 0xFF7F, 0xFF80, 0xFFFD, 0xFFFE, 0xFFFF,
];
/// image seeds: a small set so both sides can cache the 64 KiB images
pub const SEEDS: [u32; 6] = [0, 0x1234567, 0x2BADF00D, 0x3C0FFEE, 0x4D15EA5E, 0x5EED5EED];

#[derive(Clone, Copy, Debug, PartialEq, Eq, PartialOrd, Ord)]
pub enum Page {
    Base,
    CB,
    ED,
    DD,
    FD,
    DDCB,
    FDCB,
}
pub const PAGES: [Page; 7] = [Page::Base, Page::CB, Page::ED, Page::DD, Page::FD, Page::DDCB, Page::FDCB];

impl Page {
    pub fn name(&self) -> &'static str {
        match self {
            Page::Base => "base",
            Page::CB => "CB",
            Page::ED => "ED",
            Page::DD => "DD",
            Page::FD => "FD",
            Page::DDCB => "DDCB",
            Page::FDCB => "FDCB",
        }
    }
}

/// the four bytes at PC for row `op` of `page`; `o1..o3` are the operand bytes
pub fn encode(page: Page, op: u8, o1: u8, o2: u8, o3: u8) -> [u8; 4] {
    match page {
        Page::Base => [op, o1, o2, o3],
        Page::CB => [0xCB, op, o1, o2],
        Page::ED => [0xED, op, o1, o2],
        Page::DD => [0xDD, op, o1, o2],
        Page::FD => [0xFD, op, o1, o2],
        Page::DDCB => [0xDD, 0xCB, o1, op],
        Page::FDCB => [0xFD, 0xCB, o1, op],
    }
}

/// base-page bytes that are prefixes are not rows of the base page
pub fn is_row(page: Page, op: u8) -> bool {
    match page {
        Page::Base => !matches!(op, 0xCB | 0xDD | 0xED | 0xFD),
        Page::DD | Page::FD => op != 0xCB,
        _ => true,
    }
}

pub fn is_block_repeat(page: Page, op: u8) -> bool {
    page == Page::ED && matches!(op, 0xB0 | 0xB8 | 0xB1 | 0xB9)
}

pub fn v8(r: &mut Rng) -> u8 {
    if r.below(3) == 0 {
        r.pick(&EDGE8)
    } else {
        r.u8()
    }
}
pub fn v16(r: &mut Rng) -> u16 {
    match r.below(4) {
        0 => r.pick(&EDGE16),
        1 => (r.pick(&EDGE8) as u16) << 8 | r.pick(&EDGE8) as u16,
        _ => r.u16(),
    }
}

/// Random register file and control state; memory seed from the small set; no interrupts pending.
pub fn rand_state(r: &mut Rng) -> St {
    let mut s = St::default();
    for i in 0..14 {
        s.regs[i] = v8(r);
    }
    for i in 0..8 {
        s.alt[i] = v8(r);
    }
    for hi in [B, D, H, IXH, IYH] {
        if r.below(3) == 0 {
            let v = v16(r);
            s.set_pair(hi, v);
        }
    }
    s.sp = v16(r);
    s.pc = v16(r);
    s.im = r.below(3) as u8;
    s.iff1 = r.bool();
    s.iff2 = r.bool();
    s.seed = r.pick(&SEEDS);
    // the diagnostic switches only observe (C17): any combination may be on in any state
    if r.below(3) == 0 {
        let m = r.below(16) as u8;
        s.dbg = [m & 1 != 0, m & 2 != 0, m & 4 != 0, m & 8 != 0];
    }
    s
}

/// Relations between registers that random values practically never produce: equal pairs, pairs one
/// apart, A equal to another register or to the byte at (HL), small counters.
pub fn relate_regs(r: &mut Rng, s: &mut St) {
    match r.below(12) {
        0 => { let v = s.pair(H); s.set_pair(D, v) }
        1 => { let v = s.pair(H); s.set_pair(B, v) }
        2 => { let v = s.pair(D); s.set_pair(B, v) }
        3 => { let v = s.pair(H); s.set_pair(IXH, v); s.set_pair(IYH, v) }
        4 => { let v = s.pair(H); s.sp = v }
        5 => { let v = s.pair(H).wrapping_add(1); s.set_pair(D, v) }
        6 => { let v = s.pair(H).wrapping_sub(1); s.set_pair(D, v) }
        7 => { let a = s.regs[A]; let k = [B, C, D, E, H, L][r.below(6) as usize]; s.regs[k] = a }
        8 => { let hl = s.pair(H); let a = s.regs[A]; s.poke(hl, &[a]) }
        9 => { s.set_pair(B, [0u16, 1, 2, 0x100, 0xFF][r.below(5) as usize]) }
        10 => { let v = s.sp; s.set_pair(IXH, v) }
        _ => { let v = s.pair(IXH); s.set_pair(IYH, v) }
    }
}

/// Put `bytes` at PC.
pub fn with_code(mut s: St, bytes: &[u8]) -> St {
    let pc = s.pc;
    s.poke(pc, bytes);
    s
}

/// The same instruction at the same address once more, with exactly one thing different: an operand
/// byte, one register pair, A or F, the byte a pointer register addresses, or a control field.
pub fn vary_one(r: &mut Rng, s0: &St, page: Page) -> St {
    let mut s = s0.clone();
    let pc = s.pc;
    let oplen: u16 = match page {
        Page::Base => 1,
        Page::DDCB | Page::FDCB => 2, // the displacement byte sits before the opcode byte
        _ => 2,
    };
    match r.below(12) {
        0 => {
            let v = s.peek(pc.wrapping_add(oplen)).wrapping_add(1 + (r.u8() & 0x7F));
            s.poke(pc.wrapping_add(oplen), &[v]);
        }
        1 => {
            let v = s.peek(pc.wrapping_add(oplen + 1)).wrapping_add(1 + (r.u8() & 0x7F));
            s.poke(pc.wrapping_add(oplen + 1), &[v]);
        }
        2 => s.set_pair(B, v16(r)),
        3 => s.set_pair(D, v16(r)),
        4 => s.set_pair(H, v16(r)),
        5 => s.set_pair(IXH, v16(r)),
        6 => s.set_pair(IYH, v16(r)),
        7 => s.sp = v16(r),
        8 => {
            s.regs[A] = s.regs[A].wrapping_add(1 + (r.u8() & 0x7F));
        }
        9 => s.regs[F] ^= 1 << r.below(8),
        10 => {
            // the byte one of the pointers addresses
            let a = match r.below(5) {
                0 => s.pair(H),
                1 => s.pair(B),
                2 => s.pair(D),
                3 => s.sp,
                _ => s.pair(IXH).wrapping_add(s.peek(pc.wrapping_add(2)) as i8 as i16 as u16),
            };
            if a.wrapping_sub(pc) >= 4 {
                let v = s.peek(a) ^ (1 << r.below(8));
                s.poke(a, &[v]);
            }
        }
        _ => {
            s.iff2 = !s.iff2;
        }
    }
    s
}

/// Bytes around the instruction that look like instruction parts themselves: the byte before it is a
/// prefix byte (the last operand byte of the previous instruction can be anything), the bytes after it
/// are prefixes / (HL)-column opcodes.
pub fn context_bytes(r: &mut Rng, s: &mut St, page: Page, op: u8) {
    let pc = s.pc;
    let code = encode(page, op, 0, 0, 0);
    let before = [0xDDu8, 0xFD, 0xED, 0xCB][r.below(4) as usize];
    s.poke(pc.wrapping_sub(1), &[before]);
    if r.below(3) == 0 {
        s.poke(pc.wrapping_sub(2), &[[0xDDu8, 0xFD, 0xED, 0xCB][r.below(4) as usize]]);
    }
    // bytes after the opcode byte(s): keep the operands random half of the time
    let oplen: u16 = match page {
        Page::Base => 1,
        Page::DDCB | Page::FDCB => 4,
        _ => 2,
    };
    let _ = code;
    // (HL)-column opcodes, prefixes, and the instructions most often found next: RET, RETI/RETN tails, NOP, HALT,
    // EI, DI, JP, CALL, RST, JR, DJNZ, PUSH/POP, EX/EXX
    let pool = [0x06u8, 0x46, 0x86, 0xBE, 0xFE, 0x36, 0xCB, 0xDD, 0xFD, 0xED, 0x76, 0xC9, 0x4D, 0x45, 0x00, 0xFB, 0xF3, 0xC3,
                0xCD, 0xFF, 0xC7, 0x18, 0x10, 0xF5, 0xF1, 0x08, 0xD9, 0xE9];
    for i in 0..4u16 {
        if r.below(2) == 0 {
            s.poke(pc.wrapping_add(oplen + i), &[pool[r.below(pool.len() as u64) as usize]]);
        }
    }
}

/// opcodes a program most often has right after (or as operands of) an instruction
pub const NEXT_OPS: [u8; 28] = [0xC9, 0x00, 0x76, 0xFB, 0xF3, 0xC3, 0xCD, 0xFF, 0xC7, 0x18, 0x10, 0xF5, 0xF1, 0x08, 0xD9, 0xE9,
                                0xED, 0xCB, 0xDD, 0xFD, 0x4D, 0x45, 0x36, 0x06, 0x46, 0xBE, 0x3E, 0x20];

/// Every byte after the opcode byte(s) - operands and whatever follows - is `nb`.
pub fn followed_by(s: &mut St, page: Page, nb: u8) {
    let pc = s.pc;
    let oplen: u16 = match page {
        Page::Base => 1,
        Page::DDCB | Page::FDCB => 4,
        _ => 2,
    };
    for i in 0..5u16 {
        s.poke(pc.wrapping_add(oplen + i), &[nb]);
    }
    if matches!(page, Page::DDCB | Page::FDCB) {
        s.poke(pc.wrapping_add(2), &[nb]);
    }
}

/// A state about to execute row `op` of `page`, operands boundary-biased.
pub fn state_for(r: &mut Rng, page: Page, op: u8) -> St {
    let mut s = state_for0(r, page, op);
    if r.below(6) == 0 {
        // what follows a one- or two-byte instruction is usually another instruction, what precedes it an operand
        let len_known_short = matches!(page, Page::CB) || (page == Page::ED && op & 0xC7 != 0x43)
            || (page == Page::Base && !matches!(op >> 6, 0 | 3));
        if len_known_short || r.below(3) == 0 {
            context_bytes(r, &mut s, page, op);
        }
    }
    s
}

pub fn state_for0(r: &mut Rng, page: Page, op: u8) -> St {
    let mut s = rand_state(r);
    if r.below(5) == 0 {
        relate_regs(r, &mut s);
    }
    let code = encode(page, op, v8(r), v8(r), v8(r));
    if is_block_repeat(page, op) {
        // keep the loop short most of the time
        let bc = match r.below(8) {
            0 => 1,
            1 => 2,
            2 => 0x100,
            3 => r.u16() & 0x3FF,
            _ => (r.below(40) + 1) as u16,
        };
        s.set_pair(B, if bc == 0 { 1 } else { bc });
    }
    s = with_code(s, &code);
    s
}

/// Make one of the address-forming registers (or the nn operand) point at or next to the
/// instruction itself: self-modifying stores, stack over the code, operands read from the opcode.
pub fn alias_pc(r: &mut Rng, s: &mut St, page: Page, op: u8) {
    let delta = [0u16, 1, 2, 3, 0xFFFF, 0xFFFE][r.below(6) as usize];
    let target = s.pc.wrapping_add(delta);
    match r.below(8) {
        7 => {
            // the word on top of the stack points at the instruction (RET/RETI/RETN/POP to itself)
            let sp = s.sp;
            s.poke(sp, &[target as u8, (target >> 8) as u8]);
        }
        0 => s.set_pair(H, target),
        1 => s.set_pair(B, target),
        2 => s.set_pair(D, target),
        3 => s.sp = target.wrapping_add(2),
        4 => {
            let d = s.peek(s.pc.wrapping_add(2)) as i8 as i16 as u16;
            s.set_pair(IXH, target.wrapping_sub(d));
            s.set_pair(IYH, target.wrapping_sub(d));
        }
        5 => s.sp = target,
        _ => {
            // absolute operand nn
            let at = match page {
                Page::Base => s.pc.wrapping_add(1),
                _ => s.pc.wrapping_add(2),
            };
            s.poke(at, &[target as u8, (target >> 8) as u8]);
        }
    }
    let _ = op;
}

/// Everything that can form a control-transfer target or a data address points at pc + delta:
/// HL, IX, IY, the word on top of the stack, and the absolute operand nn (self-targeting jumps and
/// returns, operands inside the instruction).
pub fn self_target(s: &mut St, page: Page, delta: u16) {
    let t = s.pc.wrapping_add(delta);
    s.set_pair(H, t);
    s.set_pair(IXH, t);
    s.set_pair(IYH, t);
    // keep the stack away from the code so that pushes do not clobber it
    if s.sp.wrapping_sub(s.pc).wrapping_add(8) < 16 {
        s.sp = s.pc.wrapping_add(0x4000);
    }
    let sp = s.sp;
    s.poke(sp, &[t as u8, (t >> 8) as u8]);
    let at = match page {
        Page::Base => s.pc.wrapping_add(1),
        _ => s.pc.wrapping_add(2),
    };
    s.poke(at, &[t as u8, (t >> 8) as u8]);
}

pub const RST_OPS: [u8; 8] = [0xC7, 0xCF, 0xD7, 0xDF, 0xE7, 0xEF, 0xF7, 0xFF];

/// Add a random control situation: pending INT / NMI / halted.
pub fn with_ctl(r: &mut Rng, mut s: St) -> St {
    match r.below(4) {
        0 => s.int = Some(r.pick(&RST_OPS)),
        1 => s.int = Some(r.u8()),
        _ => {}
    }
    s.nmi = r.below(4) == 0;
    s.halt = r.below(4) == 0;
    s
}
