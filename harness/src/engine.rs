//! Runs cases on the implementation (in-process, under catch_unwind) and on the Lean
//! driver (child process), compares the replies under a per-line projection.

use crate::proto::*;
use std::collections::BTreeSet;
use std::io::{Read, Write};
use std::process::{Command, Stdio};

/// What of a reply line is compared (the observables the property constrains).
#[derive(Clone, Copy, Debug, PartialEq)]
pub struct Proj {
    /// mask on F (and F')
    pub fmask: u8,
    /// A B C D E H L IXH IXL IYH IYL I + alternate set (F' under fmask)
    pub regs: bool,
    pub r: bool,
    pub sp: bool,
    pub pc: bool,
    /// halt int nmi im iff1 iff2
    pub ctl: bool,
    pub cyc: bool,
    /// 0: ignore, 1: hexadecimal digits only (prefix stripped), 2: exact
    pub dbg: u8,
    /// for non-R lines: compare at all?
    pub other: bool,
    /// T lines: sleep presence + slice counter
    pub slice: bool,
}

pub const FULL: Proj =
    Proj { fmask: 0xFF, regs: true, r: true, sp: true, pc: true, ctl: true, cyc: true, dbg: 2, other: true, slice: true };
pub const NONE: Proj =
    Proj { fmask: 0, regs: false, r: false, sp: false, pc: false, ctl: false, cyc: false, dbg: 0, other: false, slice: false };

pub static MISMATCH_CAP: std::sync::atomic::AtomicUsize = std::sync::atomic::AtomicUsize::new(64);
fn cap() -> usize {
    MISMATCH_CAP.load(std::sync::atomic::Ordering::Relaxed)
}

pub struct Case {
    pub cmds: Vec<Cmd>,
    pub projs: Vec<Proj>,
    /// class label for the distinct count
    pub tag: String,
}

impl Case {
    pub fn new(tag: String) -> Case {
        Case { cmds: vec![], projs: vec![], tag }
    }
    pub fn push(&mut self, c: Cmd, p: Proj) {
        self.cmds.push(c);
        self.projs.push(p);
    }
    pub fn script(&self) -> String {
        self.cmds.iter().map(|c| c.line()).collect::<Vec<_>>().join("\n")
    }
}

#[derive(Clone, Debug)]
pub struct Mismatch {
    pub tag: String,
    pub script: String,
    pub line_no: usize,
    pub cmd: String,
    pub imp: String,
    pub model: String,
    pub what: String,
}

#[derive(Default)]
pub struct Stats {
    pub cases: u64,
    pub lines: u64,
    pub nontrivial: BTreeSet<String>,
    pub tags: BTreeSet<String>,
    pub panics: u64,
    pub mismatches: Vec<Mismatch>,
    pub mismatch_count: u64,
    pub samples: Vec<String>,
}

impl Stats {
    pub fn merge(&mut self, o: Stats) {
        self.cases += o.cases;
        self.lines += o.lines;
        self.nontrivial.extend(o.nontrivial);
        self.tags.extend(o.tags);
        self.panics += o.panics;
        self.mismatch_count += o.mismatch_count;
        for m in o.mismatches {
            if self.mismatches.len() < cap() {
                self.mismatches.push(m);
            }
        }
        for s in o.samples {
            if self.samples.len() < 6 {
                self.samples.push(s);
            }
        }
    }
}

fn collapse_ws(s: &str) -> String {
    s.split_whitespace().collect::<Vec<_>>().join(" ")
}

fn hexdigits_of_dbg(field: &str) -> String {
    // field = hex-escaped text or "-"
    if field == "-" {
        return String::new();
    }
    let mut txt = String::new();
    let b = field.as_bytes();
    let mut i = 0;
    while i + 1 < b.len() {
        let v = u8::from_str_radix(&field[i..i + 2], 16).unwrap_or(b'?');
        txt.push(v as char);
        i += 2;
    }
    let t = txt.trim();
    let t = t.strip_prefix("0x").or_else(|| t.strip_prefix("0X")).or_else(|| t.strip_prefix('$')).unwrap_or(t);
    t.chars().filter(|c| c.is_ascii_hexdigit()).map(|c| c.to_ascii_uppercase()).collect()
}

/// Compare one reply pair under `p`; `None` = agree.
pub fn compare(imp: &str, model: &str, p: &Proj) -> Option<String> {
    if imp == "SKIP" {
        return None;
    }
    if imp.starts_with("PANIC") {
        // an abort is an observable outcome; the model's `PANIC` (host utilities) carries no message
        return if model.starts_with("PANIC") { None } else { Some("abort".into()) };
    }
    if imp.starts_with("R ") && model.starts_with("R ") {
        let a: Vec<&str> = imp.split(' ').collect();
        let b: Vec<&str> = model.split(' ').collect();
        if a.len() != b.len() || a.len() < 13 {
            return Some("shape".into());
        }
        let ra = a[1].as_bytes();
        let rb = b[1].as_bytes();
        let byte = |x: &[u8], i: usize| u8::from_str_radix(std::str::from_utf8(&x[2 * i..2 * i + 2]).unwrap(), 16).unwrap();
        if (byte(ra, F) ^ byte(rb, F)) & p.fmask != 0 {
            return Some(format!("F under mask {:02X}", p.fmask));
        }
        if p.regs {
            for i in [A, B, C, D, E, H, L, IXH, IXL, IYH, IYL, I] {
                if byte(ra, i) != byte(rb, i) {
                    return Some(format!("register #{}", i));
                }
            }
            let ta = a[4].as_bytes();
            let tb = b[4].as_bytes();
            for i in 0..8 {
                let m = if i == 1 { p.fmask } else { 0xFF };
                if (byte(ta, i) ^ byte(tb, i)) & m != 0 {
                    return Some(format!("alternate register #{}", i));
                }
            }
        }
        if p.r && byte(ra, R) != byte(rb, R) {
            return Some("R".into());
        }
        if p.sp && a[2] != b[2] {
            return Some("SP".into());
        }
        if p.pc && a[3] != b[3] {
            return Some("PC".into());
        }
        if p.ctl && a[5..11] != b[5..11] {
            return Some("control state".into());
        }
        if p.cyc && a[11] != b[11] {
            return Some("T-states".into());
        }
        match p.dbg {
            1 => {
                if hexdigits_of_dbg(a[12]) != hexdigits_of_dbg(b[12]) {
                    return Some("diagnostic hex".into());
                }
            }
            2 => {
                if a[12] != b[12] {
                    return Some("diagnostic text".into());
                }
            }
            _ => {}
        }
        if p.slice && a.len() >= 15 {
            if (a[13] == "-") != (b[13] == "-") {
                return Some("sleep request".into());
            }
            if a[14] != b[14] {
                return Some("slice counter".into());
            }
        }
        return None;
    }
    if !p.other {
        return None;
    }
    if imp.starts_with("A ") {
        return if collapse_ws(imp) == collapse_ws(model) { None } else { Some("disassembly".into()) };
    }
    if imp == model {
        None
    } else {
        Some("reply".into())
    }
}

/// does the reply differ from the start state in something compared (non-triviality)?
fn nontrivial(first_s: Option<&St>, replies: &[String]) -> bool {
    let Some(s) = first_s else { return true };
    let start = s.regctl_text();
    for r in replies {
        if let Some(rest) = r.strip_prefix("R ") {
            // compare everything but PC
            let a: Vec<&str> = rest.split(' ').collect();
            let b: Vec<&str> = start.split(' ').collect();
            if a.len() >= 10 && b.len() >= 10 {
                if a[0] != b[0] || a[1] != b[1] || a[3..10] != b[3..10] {
                    return true;
                }
                // a non-sequential PC change also counts
                let pa = u16::from_str_radix(a[2], 16).unwrap_or(0);
                let pb = u16::from_str_radix(b[2], 16).unwrap_or(0);
                if pa.wrapping_sub(pb) > 4 {
                    return true;
                }
            }
        } else if r.starts_with("D ") && !r.starts_with("D 0") {
            return true;
        } else if r.starts_with("V ") || r.starts_with("A ") {
            return true;
        }
    }
    false
}

fn run_driver(drv: &str, input: String) -> Vec<String> {
    let mut child = Command::new(drv).stdin(Stdio::piped()).stdout(Stdio::piped()).spawn().expect("spawn z80drv");
    let mut stdin = child.stdin.take().unwrap();
    let w = std::thread::spawn(move || {
        let _ = stdin.write_all(input.as_bytes());
    });
    let mut out = String::new();
    child.stdout.take().unwrap().read_to_string(&mut out).unwrap();
    let _ = w.join();
    let _ = child.wait();
    out.lines().map(|s| s.to_string()).collect()
}

/// Run a chunk of cases: implementation in-process, model in the driver.
pub fn run_chunk(drv: &str, tmpdir: &str, cases: &[Case]) -> Stats {
    let mut st = Stats::default();
    let mut imp = Imp::new(tmpdir);
    let mut input = String::new();
    let mut imp_replies: Vec<Vec<String>> = Vec::with_capacity(cases.len());
    for c in cases {
        let mut replies = Vec::with_capacity(c.cmds.len());
        let mut dead = false;
        for cmd in &c.cmds {
            input.push_str(&cmd.line());
            input.push('\n');
            if dead {
                replies.push("SKIP".to_string());
                continue;
            }
            let r = std::panic::catch_unwind(std::panic::AssertUnwindSafe(|| imp.exec(cmd)));
            match r {
                Ok(s) => replies.push(s),
                Err(e) => {
                    let msg = if let Some(s) = e.downcast_ref::<String>() {
                        s.clone()
                    } else if let Some(s) = e.downcast_ref::<&str>() {
                        s.to_string()
                    } else {
                        "?".into()
                    };
                    replies.push(format!("PANIC {}", msg));
                    st.panics += 1;
                    dead = true;
                    imp = Imp::new(tmpdir);
                }
            }
        }
        imp_replies.push(replies);
    }
    let model = run_driver(drv, input);
    let mut k = 0;
    for (ci, c) in cases.iter().enumerate() {
        st.cases += 1;
        st.tags.insert(c.tag.clone());
        let first_s = c.cmds.iter().find_map(|x| if let Cmd::S(s) = x { Some(&**s) } else { None });
        if nontrivial(first_s, &imp_replies[ci]) {
            st.nontrivial.insert(c.tag.clone());
        }
        if st.samples.len() < 3 && ci % 97 == 0 {
            st.samples.push(format!("{} => {}", c.script().replace('\n', " ; "), imp_replies[ci].join(" ; ")));
        }
        let mut reported = false;
        for (li, cmd) in c.cmds.iter().enumerate() {
            st.lines += 1;
            let m = model.get(k).map(|s| s.as_str()).unwrap_or("<missing>");
            k += 1;
            if reported {
                continue;
            }
            if let Some(what) = compare(&imp_replies[ci][li], m, &c.projs[li]) {
                st.mismatch_count += 1;
                reported = true;
                if st.mismatches.len() < cap() {
                    st.mismatches.push(Mismatch {
                        tag: c.tag.clone(),
                        script: c.script(),
                        line_no: li,
                        cmd: cmd.line(),
                        imp: imp_replies[ci][li].clone(),
                        model: m.to_string(),
                        what,
                    });
                }
            }
        }
    }
    st
}

/// Run all cases on `threads` workers.
pub fn run_cases(drv: &str, tmpdir: &str, cases: Vec<Case>, threads: usize) -> Stats {
    let mut total = Stats::default();
    if cases.is_empty() {
        return total;
    }
    let chunk = ((cases.len() + threads - 1) / threads).clamp(1, 4000);
    let chunks: Vec<&[Case]> = cases.chunks(chunk).collect();
    let next = std::sync::atomic::AtomicUsize::new(0);
    let results = std::sync::Mutex::new(Vec::new());
    std::thread::scope(|s| {
        for _ in 0..threads {
            s.spawn(|| loop {
                let i = next.fetch_add(1, std::sync::atomic::Ordering::SeqCst);
                if i >= chunks.len() {
                    break;
                }
                let r = run_chunk(drv, tmpdir, chunks[i]);
                results.lock().unwrap().push((i, r));
            });
        }
    });
    let mut rs = results.into_inner().unwrap();
    rs.sort_by_key(|x| x.0);
    for (_, r) in rs {
        total.merge(r);
    }
    total
}

/// Sweep request: ask the driver for the model's hashes of the named sweep, all 256 blocks.
pub fn driver_sweep(drv: &str, name: &str, blocks: &[u8]) -> Vec<String> {
    let input: String = blocks.iter().map(|b| format!("SW {} {:02X}\n", name, b)).collect();
    run_driver(drv, input)
}
