//! Runs cases on the implementation (in-process, under catch_unwind) and on the Lean
//! driver (child process), compares the replies under a per-line projection, and evaluates
//! the relational oracles on the implementation's own replies.

use crate::proto::*;
use std::collections::BTreeSet;
use std::io::{Read, Write};
use std::process::{Command, Stdio};

/// What of a reply line is compared (the observables the property constrains).
#[derive(Clone, Copy, Debug, PartialEq)]
pub struct Proj {
    /// mask on F (and F')
    pub fmask: u8,
    /// A B C D E H L IXH IXL IYH IYL I + alternate set (F' under fmask)
    pub regs: bool,
    pub r: bool,
    pub sp: bool,
    pub pc: bool,
    /// halt im iff1 iff2
    pub ctl: bool,
    /// the request latches: int nmi
    pub latch: bool,
    pub cyc: bool,
    /// 0: ignore, 1: hexadecimal digits only (prefix stripped), 2: exact
    pub dbg: u8,
    /// for non-R lines: compare at all?
    pub other: bool,
    /// T lines: sleep presence + slice counter
    pub slice: bool,
    /// special handling, see `Mode`
    pub mode: Mode,
    /// `A` (disassembly) lines: compare only the size field
    pub da_size_only: bool,
    /// `H` lines of register sweeps: 1 registers+memory, 2 F (documented rows), 4 PC+SP, 8 T-states,
    /// 16 T-states against Zilog's figure (documented rows), 32 control state, 64 F under the sweep's mask on every row
    pub swr: u8,
}

#[derive(Clone, Copy, Debug, PartialEq)]
pub enum Mode {
    Plain,
    /// apply the projection only when the model says the encoding is documented (doc=1)
    DocOnly,
    /// C04: documented => implementation T-states = Zilog's figure (zt) and = the model's
    Timing,
    /// C05: sentinel-ness always; on the unknown path the whole state and the diagnostic hex
    Unknown,
    /// BIT b,x leaves S and P/V undefined: F mask 0x53 when the model reports a BIT, else fmask
    Flags,
}

pub const FULL: Proj = Proj {
    fmask: 0xFF,
    regs: true,
    r: true,
    sp: true,
    pc: true,
    ctl: true,
    latch: true,
    cyc: true,
    dbg: 2,
    other: true,
    slice: true,
    mode: Mode::Plain,
    da_size_only: false,
    swr: 0x3F,
};
pub const NONE: Proj = Proj {
    fmask: 0,
    regs: false,
    r: false,
    sp: false,
    pc: false,
    ctl: false,
    latch: false,
    cyc: false,
    dbg: 0,
    other: false,
    slice: false,
    mode: Mode::Plain,
    da_size_only: false,
    swr: 0,
};

/// A relation between two replies of the implementation inside one case.
#[derive(Clone, Copy, Debug)]
pub struct Rel {
    pub a: usize,
    pub b: usize,
    pub proj: Proj,
    /// exchange IX and IY in reply `b` before comparing
    pub swap_xy: bool,
    pub what: &'static str,
}

/// (property-level) case keys of known findings: oracle violations with these keys are counted, a few are kept
pub static KNOWN_KEYS: std::sync::Mutex<Vec<String>> = std::sync::Mutex::new(Vec::new());
fn is_known(key: &str) -> bool {
    KNOWN_KEYS.lock().map(|k| k.iter().any(|x| key == x || key.starts_with(&format!("{}/", x)))).unwrap_or(false)
}

pub static MISMATCH_CAP: std::sync::atomic::AtomicUsize = std::sync::atomic::AtomicUsize::new(64);
fn cap() -> usize {
    MISMATCH_CAP.load(std::sync::atomic::Ordering::Relaxed)
}

/// C18: the timed calls `t` (command indices) against the T-states the twin plain steps `x` returned:
/// a sleep request exactly when the accumulated count exceeds `smax`, counter = the accumulated count
#[derive(Clone, Debug)]
pub struct Accounting {
    pub t: Vec<usize>,
    pub x: Vec<usize>,
    pub smax: u32,
    pub scur: u32,
}

pub struct Case {
    pub acct: Option<Accounting>,
    pub cmds: Vec<Cmd>,
    pub projs: Vec<Proj>,
    pub rels: Vec<Rel>,
    /// class label for the distinct count
    pub tag: String,
    /// key for known_findings.txt matching
    pub key: String,
}

impl Case {
    pub fn new(tag: String) -> Case {
        Case { acct: None, cmds: vec![], projs: vec![], rels: vec![], key: tag.clone(), tag }
    }
    pub fn push(&mut self, c: Cmd, p: Proj) -> usize {
        self.cmds.push(c);
        self.projs.push(p);
        self.cmds.len() - 1
    }
}

#[derive(Clone, Debug)]
pub struct Mismatch {
    pub tag: String,
    pub key: String,
    /// the request lines as sent to the model
    pub script: String,
    pub line_no: usize,
    pub cmd: String,
    pub imp: String,
    pub model: String,
    pub what: String,
    /// true: the implementation contradicts an oracle evaluated on its own behaviour
    pub oracle: bool,
}

#[derive(Default)]
pub struct Stats {
    pub cases: u64,
    pub lines: u64,
    pub nontrivial: BTreeSet<String>,
    pub tags: BTreeSet<String>,
    pub panics: u64,
    pub mismatches: Vec<Mismatch>,
    pub mismatch_count: u64,
    pub oracle_count: u64,
    pub relations: u64,
    pub known_count: u64,
    pub samples: Vec<String>,
}

impl Stats {
    pub fn merge(&mut self, o: Stats) {
        self.cases += o.cases;
        self.lines += o.lines;
        self.nontrivial.extend(o.nontrivial);
        self.tags.extend(o.tags);
        self.panics += o.panics;
        self.mismatch_count += o.mismatch_count;
        self.oracle_count += o.oracle_count;
        self.relations += o.relations;
        self.known_count += o.known_count;
        for m in o.mismatches {
            if self.mismatches.len() < cap() {
                self.mismatches.push(m);
            }
        }
        for s in o.samples {
            if self.samples.len() < 4 {
                self.samples.push(s);
            }
        }
    }
}

fn collapse_ws(s: &str) -> String {
    s.split_whitespace().collect::<Vec<_>>().join(" ")
}

fn unhex_text(field: &str) -> String {
    if field == "-" {
        return String::new();
    }
    let mut txt = String::new();
    let mut i = 0;
    while i + 1 < field.len() {
        let v = u8::from_str_radix(&field[i..i + 2], 16).unwrap_or(b'?');
        txt.push(v as char);
        i += 2;
    }
    txt
}

fn hexdigits_of_dbg(field: &str) -> String {
    // the opcode bytes in hexadecimal: the last word of the text, `0x` / `$` prefix stripped, letter case ignored
    // (a message such as "unknown opcode 0xED00" records the same bytes as "0xED00")
    let txt = unhex_text(field);
    let t = txt.split_whitespace().last().unwrap_or("");
    let t = t.strip_prefix("0x").or_else(|| t.strip_prefix("0X")).or_else(|| t.strip_prefix('$')).unwrap_or(t);
    if t.chars().all(|c| c.is_ascii_hexdigit()) {
        t.to_ascii_uppercase()
    } else {
        // not a hexadecimal word: compared as it is
        format!("?{}", t)
    }
}

fn hb(x: &str, i: usize) -> u8 {
    u8::from_str_radix(&x[2 * i..2 * i + 2], 16).unwrap_or(0)
}

fn extra<'a>(toks: &[&'a str], key: &str) -> Option<&'a str> {
    toks.iter().find_map(|t| t.strip_prefix(key))
}

/// Compare two `R` lines under `p`.
fn compare_r(a: &[&str], b: &[&str], p: &Proj) -> Option<String> {
    if a.len() < 13 || b.len() < 13 {
        return Some("shape".into());
    }
    if (hb(a[1], F) ^ hb(b[1], F)) & p.fmask != 0 {
        return Some(format!("F under mask {:02X}", p.fmask));
    }
    if p.regs {
        for i in [A, B, C, D, E, H, L, IXH, IXL, IYH, IYL, I] {
            if hb(a[1], i) != hb(b[1], i) {
                return Some(format!("register #{}", i));
            }
        }
        for i in 0..8 {
            let m = if i == 1 { p.fmask } else { 0xFF };
            if (hb(a[4], i) ^ hb(b[4], i)) & m != 0 {
                return Some(format!("alternate register #{}", i));
            }
        }
    }
    if p.r && hb(a[1], R) != hb(b[1], R) {
        return Some("R".into());
    }
    if p.sp && a[2] != b[2] {
        return Some("SP".into());
    }
    if p.pc && a[3] != b[3] {
        return Some("PC".into());
    }
    if p.ctl && (a[5] != b[5] || a[8..11] != b[8..11]) {
        return Some("control state".into());
    }
    if p.latch && a[6..8] != b[6..8] {
        return Some("request latch".into());
    }
    if p.cyc && a[11] != b[11] {
        return Some("T-states".into());
    }
    match p.dbg {
        1 => {
            if hexdigits_of_dbg(a[12]) != hexdigits_of_dbg(b[12]) {
                return Some("diagnostic hex".into());
            }
        }
        2 => {
            if a[12] != b[12] {
                return Some("diagnostic text".into());
            }
        }
        _ => {}
    }
    // trailing fields: T lines carry <sleep> <counter>, SP16 lines carry <pair value>
    let ta: Vec<&&str> = a[13..].iter().filter(|t| !t.contains('=')).collect();
    let tb: Vec<&&str> = b[13..].iter().filter(|t| !t.contains('=')).collect();
    if ta.len() == 2 && ta[0].starts_with('X') {
        return Some(format!("requested sleep {} exceeds the slice duration", &ta[0][1..]));
    }
    if p.slice && ta.len() == 2 && tb.len() == 2 {
        if (*ta[0] == "-") != (*tb[0] == "-") {
            return Some("sleep request".into());
        }
        if ta[1] != tb[1] {
            return Some("slice counter".into());
        }
    }
    if p.other && ta.len() == 1 && tb.len() == 1 && ta[0] != tb[0] {
        return Some("pair value".into());
    }
    None
}

/// Compare the implementation's reply with the model's under `p`; `None` = agree.
/// Returns (what, is_oracle).
pub fn compare(imp: &str, model: &str, p: &Proj) -> Option<(String, bool)> {
    if imp == "SKIP" {
        return None;
    }
    if imp.starts_with("PANIC") {
        return if model.starts_with("PANIC") { None } else { Some(("abort".into(), true)) };
    }
    if imp.starts_with("R ") && model.starts_with("R ") {
        let a: Vec<&str> = imp.split(' ').collect();
        let b: Vec<&str> = model.split(' ').collect();
        if a.len() < 13 || b.len() < 13 {
            return Some(("shape".into(), false));
        }
        let doc = extra(&b, "doc=") == Some("1");
        // encodings the pinned tree reports as unknown are the I/O group and undocumented ones (every documented
        // non-I/O encoding is implemented: theorem C05_documented).  The properties do not say what an implementation
        // that chooses to EXECUTE one of them must do (ports are outside the machine state, undocumented behaviour is
        // not in Zilog's specification), so such a step cannot be judged against the model and the case is left
        // alone from there on (the implementation's own twin relations still apply).  `io=` on timed and sweep
        // replies means "the model reported this step as unknown".
        let timed = a.len() > 14 && !a[13].contains('=');
        if (!timed && a[11] != "255" && b[11] == "255") || (timed && extra(&b, "io=") == Some("1") && a[14] != b[14]) {
            // ... except where the behaviour of the real part is common knowledge (Spec.undocED: mirrors of NEG, RETN,
            // IM n and two-byte no-operations on the ED page): then "executed as the instruction it encodes" can be
            // judged after all, on everything but the T-states and the diagnostic text
            if let Some(alt) = extra(&b, "alt=") {
                let alt_line = alt.replace('_', " ");
                let c: Vec<&str> = alt_line.split(' ').collect();
                let q = Proj { cyc: false, dbg: 0, latch: false, slice: false, mode: Mode::Plain, ..*p };
                if c.len() >= 13 {
                    if let Some(w) = compare_r(&a, &c, &q) {
                        return Some((format!("an encoding the pinned tree reports as unknown is executed, but not as the instruction it stands for: {}", w), false));
                    }
                }
            }
            return Some(("\u{0}unjudged".into(), false));
        }
        match p.mode {
            Mode::Plain => compare_r(&a, &b, p).map(|w| (w, false)),
            Mode::DocOnly => {
                if doc {
                    compare_r(&a, &b, p).map(|w| (w, false))
                } else {
                    None
                }
            }
            Mode::Flags => {
                let is_bit = extra(&b, "cls=") == Some("bit");
                let q = Proj { fmask: if is_bit { p.fmask & 0x53 } else { p.fmask }, ..*p };
                if doc {
                    compare_r(&a, &b, &q).map(|w| (w, false))
                } else {
                    None
                }
            }
            Mode::Timing => {
                if !doc {
                    return None;
                }
                if let Some(zt) = extra(&b, "zt=") {
                    if zt != "-" && zt != a[11] {
                        // the encoding that was executed names the finding, whatever case reached it
                        let row = extra(&b, "row=").map(|r| format!(" [row {}]", r)).unwrap_or_default();
                        return Some((format!("T-states {} but Zilog publishes {}{}", a[11], zt, row), true));
                    }
                }
                if a[11] != b[11] {
                    return Some(("T-states".into(), false));
                }
                None
            }
            Mode::Unknown => {
                let sentinel_m = b[11] == "255";
                let sentinel_i = a[11] == "255";
                if sentinel_m != sentinel_i {
                    return Some((
                        format!("reported-unknown={} but the instruction set says {}", sentinel_i, sentinel_m),
                        false,
                    ));
                }
                if sentinel_m {
                    compare_r(&a, &b, p).map(|w| (format!("unknown path: {}", w), false))
                } else {
                    // executed as the instruction it encodes: in particular it does not halt or touch
                    // the interrupt state unless that instruction says so
                    compare_r(&a, &b, &Proj { ctl: p.ctl, ..NONE }).map(|w| (format!("executed path: {}", w), false))
                }
            }
        }
    } else if imp.starts_with("H ") && model.starts_with("H ") && p.swr != 0 {
        let a: Vec<&str> = imp.split(' ').collect();
        let b: Vec<&str> = model.split(' ').collect();
        if a.len() < 7 || b.len() < 7 {
            return Some(("shape".into(), false));
        }
        // a sweep that met the I/O group and where the implementation did not report it as unknown: not judged
        if extra(&b, "io=") == Some("1") && a[4] != b[4] {
            return None;
        }
        let doc = extra(&b, "doc=") == Some("1");
        if p.swr & 1 != 0 && a[1] != b[1] {
            return Some(("sweep: registers or memory".into(), false));
        }
        let fdoc = extra(&b, "fdoc=") == Some("1");
        if p.swr & 2 != 0 && fdoc && a[2] != b[2] {
            return Some(("sweep: documented flags".into(), false));
        }
        if p.swr & 64 != 0 && a[2] != b[2] {
            return Some(("sweep: flag byte".into(), false));
        }
        if p.swr & 4 != 0 && a[3] != b[3] {
            return Some(("sweep: PC or SP".into(), false));
        }
        if p.swr & 16 != 0 && doc && a[4] != b[5] {
            return Some(("sweep: T-states differ from Zilog's figures".into(), true));
        }
        if p.swr & 8 != 0 && a[4] != b[4] {
            return Some(("sweep: T-states".into(), false));
        }
        if p.swr & 32 != 0 && a[6] != b[6] {
            return Some(("sweep: control state".into(), false));
        }
        None
    } else if !p.other {
        None
    } else if imp.starts_with("A ") && p.da_size_only {
        if imp.split(' ').nth(1) == model.split(' ').nth(1) {
            None
        } else {
            Some(("disassembly size".into(), false))
        }
    } else if imp.starts_with("A ") {
        if collapse_ws(imp).to_ascii_uppercase() == collapse_ws(model).to_ascii_uppercase() {
            None
        } else {
            Some(("disassembly".into(), false))
        }
    } else if imp == model {
        None
    } else {
        Some(("reply".into(), false))
    }
}

fn swap_xy_reply(r: &str) -> String {
    // R <regs28> ...: bytes 8,9 (IX) <-> 10,11 (IY)
    let mut t: Vec<String> = r.split(' ').map(|s| s.to_string()).collect();
    if t.len() > 1 && t[1].len() == 28 {
        let x = t[1].clone();
        t[1] = format!("{}{}{}{}", &x[0..16], &x[20..24], &x[16..20], &x[24..28]);
    }
    t.join(" ")
}

/// does the reply differ from the start state in something compared (non-triviality)?
fn nontrivial(first_s: Option<&St>, replies: &[String]) -> bool {
    let Some(s) = first_s else { return true };
    let start = s.regctl_text();
    let b: Vec<&str> = start.split(' ').collect();
    for r in replies {
        if let Some(rest) = r.strip_prefix("R ") {
            let a: Vec<&str> = rest.split(' ').collect();
            if a.len() >= 10 && b.len() >= 10 {
                if a[0] != b[0] || a[1] != b[1] || a[3..10] != b[3..10] {
                    return true;
                }
                let pa = u16::from_str_radix(a[2], 16).unwrap_or(0);
                let pb = u16::from_str_radix(b[2], 16).unwrap_or(0);
                if pa.wrapping_sub(pb) > 4 {
                    return true;
                }
            }
        } else if r.starts_with("D ") && !r.starts_with("D 0") {
            return true;
        } else if r.starts_with("V ") || r.starts_with("A ") {
            return true;
        }
    }
    false
}

pub fn run_driver(drv: &str, input: String) -> Vec<String> {
    let mut child = Command::new(drv).stdin(Stdio::piped()).stdout(Stdio::piped()).spawn().expect("spawn z80drv");
    let mut stdin = child.stdin.take().unwrap();
    let w = std::thread::spawn(move || {
        let _ = stdin.write_all(input.as_bytes());
    });
    let mut out = String::new();
    child.stdout.take().unwrap().read_to_string(&mut out).unwrap();
    let _ = w.join();
    let _ = child.wait();
    out.lines().map(|s| s.to_string()).collect()
}

struct Ran {
    /// per command: the (driver line, implementation reply) pairs it expanded to
    lines: Vec<Vec<(String, String)>>,
}

/// Run a chunk of cases: implementation in-process, model in the driver.
pub fn run_chunk(drv: &str, tmpdir: &str, cases: &[Case]) -> Stats {
    let mut st = Stats::default();
    let mut imp = Imp::new(tmpdir);
    let mut input = String::new();
    let mut ran: Vec<Ran> = Vec::with_capacity(cases.len());
    for c in cases {
        let mut lines = Vec::with_capacity(c.cmds.len());
        let mut dead = false;
        for cmd in &c.cmds {
            if dead {
                // keep the model in step where the line is known statically
                let l = cmd.line();
                if l != "<runtime>" {
                    input.push_str(&l);
                    input.push('\n');
                    lines.push(vec![(l, "SKIP".to_string())]);
                } else {
                    lines.push(vec![]);
                }
                continue;
            }
            let r = std::panic::catch_unwind(std::panic::AssertUnwindSafe(|| imp.exec_lines(cmd)));
            match r {
                Ok(v) => {
                    for (l, _) in &v {
                        input.push_str(l);
                        input.push('\n');
                    }
                    lines.push(v);
                }
                Err(e) => {
                    let msg = if let Some(s) = e.downcast_ref::<String>() {
                        s.clone()
                    } else if let Some(s) = e.downcast_ref::<&str>() {
                        s.to_string()
                    } else {
                        "?".into()
                    };
                    let l = cmd.line();
                    let l = if l == "<runtime>" { "X".to_string() } else { l };
                    input.push_str(&l);
                    input.push('\n');
                    lines.push(vec![(l, format!("PANIC {}", msg))]);
                    st.panics += 1;
                    dead = true;
                    imp = Imp::new(tmpdir);
                }
            }
        }
        ran.push(Ran { lines });
    }
    let model = run_driver(drv, input);
    let mut k = 0;
    for (ci, c) in cases.iter().enumerate() {
        st.cases += 1;
        st.tags.insert(c.tag.clone());
        let first_s = c.cmds.iter().find_map(|x| match x { Cmd::S(s) | Cmd::SN(s) | Cmd::SR(s) => Some(&**s), _ => None });
        let flat: Vec<String> = ran[ci].lines.iter().flatten().map(|x| x.1.clone()).collect();
        let script = || ran[ci].lines.iter().flatten().map(|x| x.0.clone()).collect::<Vec<_>>().join("\n");
        if nontrivial(first_s, &flat) {
            st.nontrivial.insert(c.tag.clone());
        }
        if st.samples.len() < 2 && ci % 131 == 7 {
            st.samples.push(format!("{} => {}", script().replace('\n', " ; "), flat.join(" ; ")));
        }
        let mut reported = false;
        let mut unjudged = false;
        let mut ln = 0;
        for (li, exp) in ran[ci].lines.iter().enumerate() {
            for (line, reply) in exp {
                st.lines += 1;
                let m = model.get(k).map(|s| s.as_str()).unwrap_or("<missing>");
                k += 1;
                ln += 1;
                if reported || unjudged {
                    continue;
                }
                if let Some((what, oracle)) = compare(reply, m, &c.projs[li]) {
                    if what.starts_with('\u{0}') {
                        // an I/O instruction the implementation executes: from here on the two sides may differ
                        // legitimately (the port data is not part of the machine state); the rest of the case is not judged
                        // against the model (relations between the implementation's own replies still are)
                        unjudged = true;
                        continue;
                    }
                    st.mismatch_count += 1;
                    if oracle {
                        st.oracle_count += 1;
                    }
                    reported = true;
                    let mkey = match (what.find("[row "), what.rfind(']')) {
                        (Some(i), Some(j)) if j > i + 5 => what[i + 5..j].to_string(),
                        _ => c.key.clone(),
                    };
                    let known = oracle && is_known(&mkey);
                    if known {
                        st.known_count += 1;
                    }
                    if st.mismatches.len() < cap() && (!known || st.known_count <= 8) {
                        st.mismatches.push(Mismatch {
                            tag: c.tag.clone(),
                            key: mkey.clone(),
                            script: script(),
                            line_no: ln - 1,
                            cmd: line.clone(),
                            imp: reply.clone(),
                            model: m.to_string(),
                            what,
                            oracle,
                        });
                    }
                }
            }
        }
        // C18 accounting oracle on the implementation's own T-states
        if let Some(ac) = &c.acct {
            st.relations += 1;
            let mut acc = ac.scur;
            for (k, (&ti, &xi)) in ac.t.iter().zip(ac.x.iter()).enumerate() {
                let (Some(tl), Some(xl)) = (ran[ci].lines.get(ti).and_then(|v| v.last()), ran[ci].lines.get(xi).and_then(|v| v.last())) else { break };
                let tt: Vec<&str> = tl.1.split(' ').collect();
                let xt: Vec<&str> = xl.1.split(' ').collect();
                if tt.len() < 15 || xt.len() < 12 || !tl.1.starts_with("R ") || !xl.1.starts_with("R ") {
                    break;
                }
                let fired = acc > ac.smax;
                if fired {
                    acc = 0;
                }
                acc = acc.wrapping_add(xt[11].parse::<u32>().unwrap_or(0));
                let got_fired = tt[13] != "-";
                let got_cur = u32::from_str_radix(tt[14], 16).unwrap_or(0);
                if (got_fired != fired || got_cur != acc) && !reported {
                    st.mismatch_count += 1;
                    st.oracle_count += 1;
                    reported = true;
                    if st.mismatches.len() < cap() {
                        st.mismatches.push(Mismatch {
                            tag: c.tag.clone(),
                            key: c.key.clone(),
                            script: script(),
                            line_no: ti,
                            cmd: format!("timed call #{}", k),
                            imp: tl.1.clone(),
                            model: format!("expected request={} counter={:08X} from the T-states the plain steps returned", fired, acc),
                            what: "slice accounting".into(),
                            oracle: true,
                        });
                    }
                    break;
                }
            }
        }
        // relational oracles on the implementation's own replies
        for rel in &c.rels {
            st.relations += 1;
            let la = ran[ci].lines.get(rel.a).and_then(|v| v.last());
            let lb = ran[ci].lines.get(rel.b).and_then(|v| v.last());
            let (Some(la), Some(lb)) = (la, lb) else { continue };
            if la.1 == "SKIP" || lb.1 == "SKIP" || la.1.starts_with("PANIC") || lb.1.starts_with("PANIC") {
                continue; // aborts are reported by the line comparison
            }
            if rel.swap_xy {
                // the relation only speaks about pairs that are both implemented
                let unk = |r: &str| r.split(' ').nth(11) == Some("255");
                if unk(&la.1) || unk(&lb.1) {
                    continue;
                }
            }
            let rb = if rel.swap_xy { swap_xy_reply(&lb.1) } else { lb.1.clone() };
            let bad = if la.1.starts_with("R ") {
                let a: Vec<&str> = la.1.split(' ').collect();
                let b: Vec<&str> = rb.split(' ').collect();
                compare_r(&a, &b, &rel.proj)
            } else if la.1 == rb {
                None
            } else {
                Some("reply".into())
            };
            if let Some(w) = bad {
                if !reported {
                    st.mismatch_count += 1;
                    st.oracle_count += 1;
                    reported = true;
                    if st.mismatches.len() < cap() {
                        st.mismatches.push(Mismatch {
                            tag: c.tag.clone(),
                            key: c.key.clone(),
                            script: script(),
                            line_no: rel.b,
                            cmd: format!("relation {} between replies of commands #{} and #{}", rel.what, rel.a, rel.b),
                            imp: rb,
                            model: la.1.clone(),
                            what: format!("{}: {}", rel.what, w),
                            oracle: true,
                        });
                    }
                }
            }
        }
    }
    st
}

/// Run all cases on `threads` workers.
pub fn run_cases(drv: &str, tmpdir: &str, cases: Vec<Case>, threads: usize) -> Stats {
    let mut total = Stats::default();
    if cases.is_empty() {
        return total;
    }
    // register sweeps are ~65,536 steps each: small chunks keep every worker busy
    let is_heavy = |c: &Case| c.cmds.iter().any(|m| matches!(m, Cmd::SWR { .. }));
    let (heavy, cases): (Vec<Case>, Vec<Case>) = cases.into_iter().partition(is_heavy);
    let chunk = ((cases.len() + threads - 1) / threads).clamp(1, 3000);
    let mut chunks: Vec<&[Case]> = heavy.chunks(24).collect();
    chunks.extend(cases.chunks(chunk));
    let next = std::sync::atomic::AtomicUsize::new(0);
    let results = std::sync::Mutex::new(Vec::new());
    std::thread::scope(|s| {
        for _ in 0..threads {
            s.spawn(|| loop {
                let i = next.fetch_add(1, std::sync::atomic::Ordering::SeqCst);
                if i >= chunks.len() {
                    break;
                }
                let r = run_chunk(drv, tmpdir, chunks[i]);
                results.lock().unwrap().push((i, r));
            });
        }
    });
    let mut rs = results.into_inner().unwrap();
    rs.sort_by_key(|x| x.0);
    for (_, r) in rs {
        total.merge(r);
    }
    total
}
