//! C02: exhaustive operand sweeps through real opcodes, folded to one hash per block of
//! 2^16 (8-bit cores) on both sides; a differing block is expanded into ordinary cases.

use crate::engine::*;
use crate::proto::*;
use zilog_z80::cpu::CPU;

#[inline]
fn mix(h: u64, v: u64) -> u64 {
    (h ^ v).wrapping_mul(0x100000001B3)
}

pub struct Sweep {
    pub name: &'static str,
    pub kind: &'static str, // an | af | bf | amf | w16
    pub code: &'static [u8],
    pub mask: u8,
}

pub const SWEEPS: &[Sweep] = &[
    Sweep { name: "add", kind: "an", code: &[0xC6], mask: 0xD7 },
    Sweep { name: "adc", kind: "an", code: &[0xCE], mask: 0xD7 },
    Sweep { name: "sub", kind: "an", code: &[0xD6], mask: 0xD7 },
    Sweep { name: "sbc", kind: "an", code: &[0xDE], mask: 0xD7 },
    Sweep { name: "and", kind: "an", code: &[0xE6], mask: 0xD7 },
    Sweep { name: "xor", kind: "an", code: &[0xEE], mask: 0xD7 },
    Sweep { name: "or", kind: "an", code: &[0xF6], mask: 0xD7 },
    Sweep { name: "cp", kind: "an", code: &[0xFE], mask: 0xD7 },
    Sweep { name: "rld", kind: "amf", code: &[0xED, 0x6F], mask: 0xD7 },
    Sweep { name: "rrd", kind: "amf", code: &[0xED, 0x67], mask: 0xD7 },
    Sweep { name: "incm", kind: "amf", code: &[0x34], mask: 0xD7 },
    Sweep { name: "decm", kind: "amf", code: &[0x35], mask: 0xD7 },
    Sweep { name: "daa", kind: "af", code: &[0x27], mask: 0xD7 },
    Sweep { name: "cpl", kind: "af", code: &[0x2F], mask: 0xD7 },
    Sweep { name: "neg", kind: "af", code: &[0xED, 0x44], mask: 0xD7 },
    Sweep { name: "ccf", kind: "af", code: &[0x3F], mask: 0xD7 },
    Sweep { name: "scf", kind: "af", code: &[0x37], mask: 0xD7 },
    Sweep { name: "rlca", kind: "af", code: &[0x07], mask: 0xD7 },
    Sweep { name: "rla", kind: "af", code: &[0x17], mask: 0xD7 },
    Sweep { name: "rrca", kind: "af", code: &[0x0F], mask: 0xD7 },
    Sweep { name: "rra", kind: "af", code: &[0x1F], mask: 0xD7 },
    Sweep { name: "inc", kind: "bf", code: &[0x04], mask: 0xD7 },
    Sweep { name: "dec", kind: "bf", code: &[0x05], mask: 0xD7 },
    Sweep { name: "rlc", kind: "bf", code: &[0xCB, 0x00], mask: 0xD7 },
    Sweep { name: "rrc", kind: "bf", code: &[0xCB, 0x08], mask: 0xD7 },
    Sweep { name: "rl", kind: "bf", code: &[0xCB, 0x10], mask: 0xD7 },
    Sweep { name: "rr", kind: "bf", code: &[0xCB, 0x18], mask: 0xD7 },
    Sweep { name: "sla", kind: "bf", code: &[0xCB, 0x20], mask: 0xD7 },
    Sweep { name: "sra", kind: "bf", code: &[0xCB, 0x28], mask: 0xD7 },
    Sweep { name: "sll", kind: "bf", code: &[0xCB, 0x30], mask: 0xD7 },
    Sweep { name: "srl", kind: "bf", code: &[0xCB, 0x38], mask: 0xD7 },
    Sweep { name: "bit0", kind: "bf", code: &[0xCB, 0x40], mask: 0x53 },
    Sweep { name: "bit1", kind: "bf", code: &[0xCB, 0x48], mask: 0x53 },
    Sweep { name: "bit2", kind: "bf", code: &[0xCB, 0x50], mask: 0x53 },
    Sweep { name: "bit3", kind: "bf", code: &[0xCB, 0x58], mask: 0x53 },
    Sweep { name: "bit4", kind: "bf", code: &[0xCB, 0x60], mask: 0x53 },
    Sweep { name: "bit5", kind: "bf", code: &[0xCB, 0x68], mask: 0x53 },
    Sweep { name: "bit6", kind: "bf", code: &[0xCB, 0x70], mask: 0x53 },
    Sweep { name: "bit7", kind: "bf", code: &[0xCB, 0x78], mask: 0x53 },
    Sweep { name: "add16", kind: "w16", code: &[0x19], mask: 0xD7 },
    Sweep { name: "adc16", kind: "w16", code: &[0xED, 0x5A], mask: 0xD7 },
    Sweep { name: "sbc16", kind: "w16", code: &[0xED, 0x52], mask: 0xD7 },
];

const LOWS: [u8; 5] = [0x00, 0x01, 0x7F, 0x80, 0xFF];

fn setup(c: &mut CPU, code: &[u8], n: u8, a: u8, f: u8, b: u8, m: u8) {
    let mem = c.bus.verif_mem_mut();
    for x in mem.iter_mut() {
        *x = 0;
    }
    mem[..code.len()].copy_from_slice(code);
    if code.len() < 2 || code[0] != 0xCB && code[0] != 0xED {
        mem[code.len()] = n;
    }
    mem[8] = m;
    c.reg.pc = 0;
    c.reg.sp = 0;
    c.reg.a = a;
    c.reg.flags.set_from_byte(f);
    c.reg.b = b;
    c.reg.c = 0;
    c.reg.d = 0;
    c.reg.e = 0;
    c.reg.h = 0;
    c.reg.l = 8;
}

/// the implementation's hash of one block; Err = it aborted
pub fn imp_block(sw: &Sweep, block: u8) -> Result<u64, String> {
    let r = std::panic::catch_unwind(|| {
        let mut c = CPU::new(15);
        let mut h: u64 = 0xcbf29ce484222325;
        let mut one = |c: &mut CPU, n: u8, a: u8, f: u8, b: u8, m: u8, h: &mut u64| {
            setup(c, sw.code, n, a, f, b, m);
            c.execute();
            *h = mix(mix(mix(mix(*h, c.reg.a as u64), (c.reg.flags.to_byte() & sw.mask) as u64), c.reg.b as u64), c.bus.read_byte(8) as u64);
        };
        match sw.kind {
            "an" => {
                for n in 0..=255u8 {
                    for f in 0..=255u8 {
                        one(&mut c, n, block, f, 0, 0, &mut h);
                    }
                }
            }
            "amf" => {
                for m in 0..=255u8 {
                    for f in 0..=255u8 {
                        one(&mut c, 0, block, f, 0, m, &mut h);
                    }
                }
            }
            "af" => {
                for a in 0..=255u8 {
                    for f in 0..=255u8 {
                        one(&mut c, 0, a, f, 0, 0, &mut h);
                    }
                }
            }
            "bf" => {
                for b in 0..=255u8 {
                    for f in 0..=255u8 {
                        one(&mut c, 0, 0, f, b, 0, &mut h);
                    }
                }
            }
            _ => {
                for dd in 0..=255u8 {
                    for l1 in LOWS {
                        for l2 in LOWS {
                            for cy in 0..2 {
                                setup(&mut c, sw.code, 0, 0, if cy == 1 { 0xFF } else { 0x00 }, 0, 0);
                                c.reg.h = block;
                                c.reg.l = l1;
                                c.reg.d = dd;
                                c.reg.e = l2;
                                c.execute();
                                h = mix(mix(mix(h, c.reg.h as u64), c.reg.l as u64), (c.reg.flags.to_byte() & 0xD7) as u64);
                            }
                        }
                    }
                }
            }
        }
        h
    });
    r.map_err(|_| "abort".to_string())
}

/// exhaustive 16-bit sweep: HL = hh:ll for every ll (or one), every DE, both carries
pub fn imp_block16x(sw: &Sweep, hh: u8, only_l: Option<u8>) -> Result<u64, String> {
    let r = std::panic::catch_unwind(|| {
        let mut c = CPU::new(15);
        let mut h: u64 = 0xcbf29ce484222325;
        for ll in 0..=255u8 {
            if let Some(l) = only_l {
                if l != ll {
                    continue;
                }
            }
            for de in 0..=65535u16 {
                for cy in 0..2 {
                    setup(&mut c, sw.code, 0, 0, if cy == 1 { 0xFF } else { 0x00 }, 0, 0);
                    c.reg.h = hh;
                    c.reg.l = ll;
                    c.reg.d = (de >> 8) as u8;
                    c.reg.e = de as u8;
                    c.execute();
                    h = mix(mix(mix(h, c.reg.h as u64), c.reg.l as u64), (c.reg.flags.to_byte() & 0xD7) as u64);
                }
            }
        }
        h
    });
    r.map_err(|_| "abort".to_string())
}

/// the 2^17 cases of one (hh, ll) as ordinary cases
pub fn expand_block16x(sw: &Sweep, hh: u8, ll: u8) -> Vec<Case> {
    let mut cases = vec![];
    for de in 0..=65535u16 {
        for cy in 0..2 {
            let mut s = St::default();
            s.top = 15;
            s.regs[F] = if cy == 1 { 0xFF } else { 0 };
            s.regs[H] = hh;
            s.regs[L] = ll;
            s.regs[D] = (de >> 8) as u8;
            s.regs[E] = de as u8;
            s.poke(0, sw.code);
            let mut c = Case::new(format!("sweep:{}", sw.name));
            c.push(Cmd::S(Box::new(s)), NONE);
            c.push(Cmd::X, Proj { fmask: sw.mask, regs: true, ..NONE });
            cases.push(c);
        }
    }
    cases
}

/// number of blocks a sweep has (single-block sweeps vary both operands inside the block)
pub fn blocks_of(sw: &Sweep) -> Vec<u8> {
    match sw.kind {
        "af" | "bf" => vec![0],
        _ => (0..=255u8).collect(),
    }
}

pub fn evals_per_block(sw: &Sweep) -> u64 {
    match sw.kind {
        "w16" => 256 * 25 * 2,
        _ => 65536,
    }
}

/// Expand one block into ordinary cases (used when the hashes differ).
pub fn expand_block(sw: &Sweep, block: u8) -> Vec<Case> {
    let mut cases = vec![];
    let mk = |n: u8, a: u8, f: u8, b: u8, m: u8, hl: Option<(u8, u8, u8, u8)>| -> Case {
        let mut s = St::default();
        s.top = 15;
        s.regs[A] = a;
        s.regs[F] = f;
        s.regs[B] = b;
        s.regs[L] = 8;
        let mut code = sw.code.to_vec();
        if code.len() < 2 || code[0] != 0xCB && code[0] != 0xED {
            code.push(n);
        }
        s.poke(0, &code);
        s.poke(8, &[m]);
        if let Some((h, l, d, e)) = hl {
            s.regs[H] = h;
            s.regs[L] = l;
            s.regs[D] = d;
            s.regs[E] = e;
        }
        let mut c = Case::new(format!("sweep:{}", sw.name));
        c.push(Cmd::S(Box::new(s)), NONE);
        c.push(Cmd::X, Proj { fmask: sw.mask, regs: true, ..NONE });
        c.push(Cmd::D, Proj { other: true, ..NONE });
        c
    };
    match sw.kind {
        "an" => {
            for n in 0..=255u8 {
                for f in 0..=255u8 {
                    cases.push(mk(n, block, f, 0, 0, None));
                }
            }
        }
        "amf" => {
            for m in 0..=255u8 {
                for f in 0..=255u8 {
                    cases.push(mk(0, block, f, 0, m, None));
                }
            }
        }
        "af" => {
            for a in 0..=255u8 {
                for f in 0..=255u8 {
                    cases.push(mk(0, a, f, 0, 0, None));
                }
            }
        }
        "bf" => {
            for b in 0..=255u8 {
                for f in 0..=255u8 {
                    cases.push(mk(0, 0, f, b, 0, None));
                }
            }
        }
        _ => {
            for dd in 0..=255u8 {
                for l1 in LOWS {
                    for l2 in LOWS {
                        for cy in 0..2 {
                            cases.push(mk(0, 0, if cy == 1 { 0xFF } else { 0 }, 0, 0, Some((block, l1, dd, l2))));
                        }
                    }
                }
            }
        }
    }
    cases
}
