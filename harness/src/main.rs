mod engine;
mod gen;
mod proto;

use engine::*;
use gen::*;
use proto::*;
use std::collections::BTreeMap;
use std::io::Write;

extern "C" {
    fn dup(fd: i32) -> i32;
    fn dup2(a: i32, b: i32) -> i32;
}

/// The implementation prints a trace on stdout when `debug.opcode` is set: send fd 1 to
/// /dev/null and keep the original for our own report.
fn steal_stdout() -> std::fs::File {
    use std::os::fd::{AsRawFd, FromRawFd};
    unsafe {
        let saved = dup(1);
        let null = std::fs::OpenOptions::new().write(true).open("/dev/null").unwrap();
        dup2(null.as_raw_fd(), 1);
        std::fs::File::from_raw_fd(saved)
    }
}

pub struct Opts {
    pub prop: String,
    pub tier: String,
    pub seed: u64,
    pub drv: String,
    pub out: String,
    pub replay_dir: String,
    pub tmp: String,
    pub threads: usize,
    pub n: usize,
}

fn parse_opts() -> Opts {
    let a: Vec<String> = std::env::args().collect();
    let mut o = Opts {
        prop: a.get(1).cloned().unwrap_or_default(),
        tier: "quick".into(),
        seed: 1,
        drv: "/verif/lean/.lake/build/bin/z80drv".into(),
        out: String::new(),
        replay_dir: "/verif/evidence/replay".into(),
        tmp: "/verif/work".into(),
        threads: 16,
        n: 0,
    };
    let mut i = 2;
    while i < a.len() {
        let v = a.get(i + 1).cloned().unwrap_or_default();
        match a[i].as_str() {
            "--tier" => o.tier = v,
            "--seed" => o.seed = v.parse().unwrap_or(1),
            "--drv" => o.drv = v,
            "--out" => o.out = v,
            "--replay-dir" => o.replay_dir = v,
            "--tmp" => o.tmp = v,
            "--threads" => o.threads = v.parse().unwrap_or(16),
            "--n" => o.n = v.parse().unwrap_or(0),
            _ => {}
        }
        i += 2;
    }
    o
}

/// Developer tool: every encoding x n states, whole state compared; mismatches grouped.
fn explore(o: &Opts, out: &mut dyn Write) {
    MISMATCH_CAP.store(1_000_000, std::sync::atomic::Ordering::Relaxed);
    let mut rng = Rng::new(o.seed);
    let n = if o.n == 0 { 8 } else { o.n };
    let mut cases = vec![];
    for page in PAGES {
        for op in 0..=255u8 {
            if !is_row(page, op) {
                continue;
            }
            for k in 0..n {
                let mut s = state_for(&mut rng, page, op);
                if k % 4 == 3 {
                    s = with_ctl(&mut rng, s);
                }
                s.dbg = [k % 2 == 0, k % 8 >= 4, false, false];
                let mut c = Case::new(format!("{}:{:02X}", page.name(), op));
                c.push(Cmd::S(Box::new(s)), FULL);
                c.push(Cmd::X, Proj { r: false, ..FULL });
                c.push(Cmd::D, FULL);
                cases.push(c);
            }
        }
    }
    let st = run_cases(&o.drv, &o.tmp, cases, o.threads);
    writeln!(out, "cases {} lines {} panics {} mismatches {}", st.cases, st.lines, st.panics, st.mismatch_count).unwrap();
    let mut groups: BTreeMap<String, (usize, Mismatch)> = BTreeMap::new();
    for m in &st.mismatches {
        let key = format!("{} {}", m.tag, m.what);
        groups.entry(key).and_modify(|e| e.0 += 1).or_insert((1, m.clone()));
    }
    for (k, (n, m)) in groups {
        writeln!(out, "== {} x{}\n{}\n  imp:   {}\n  model: {}", k, n, m.script, m.imp, m.model).unwrap();
    }
}

fn main() {
    let mut out = steal_stdout();
    std::panic::set_hook(Box::new(|_| {}));
    let o = parse_opts();
    std::fs::create_dir_all(&o.tmp).ok();
    match o.prop.as_str() {
        "explore" => explore(&o, &mut out),
        _ => {
            writeln!(out, "unknown mode {}", o.prop).unwrap();
            std::process::exit(2);
        }
    }
}
