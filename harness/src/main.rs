mod engine;
mod gen;
mod props;
mod proto;
mod sweeps;

use engine::*;
use gen::*;
use proto::*;
use std::collections::BTreeMap;
use std::io::Write;

extern "C" {
    fn dup(fd: i32) -> i32;
    fn dup2(a: i32, b: i32) -> i32;
}

/// The implementation prints a trace on stdout when `debug.opcode` is set: send fd 1 to
/// /dev/null and keep the original for our own report.
fn steal_stdout() -> std::fs::File {
    use std::os::fd::{AsRawFd, FromRawFd};
    unsafe {
        let saved = dup(1);
        let null = std::fs::OpenOptions::new().write(true).open("/dev/null").unwrap();
        dup2(null.as_raw_fd(), 1);
        std::fs::File::from_raw_fd(saved)
    }
}

pub struct Opts {
    pub prop: String,
    pub tier: String,
    pub seed: u64,
    pub drv: String,
    pub out: String,
    pub replay_dir: String,
    pub tmp: String,
    pub known: String,
    pub threads: usize,
    pub n: usize,
    pub replay: String,
    pub profile: String,
}

fn parse_opts() -> Opts {
    let a: Vec<String> = std::env::args().collect();
    let mut o = Opts {
        prop: a.get(1).cloned().unwrap_or_default(),
        tier: "quick".into(),
        seed: 1,
        drv: "/verif/lean/.lake/build/bin/z80drv".into(),
        out: String::new(),
        replay_dir: "/verif/evidence/replay".into(),
        tmp: "/verif/work".into(),
        known: "/verif/known_findings.txt".into(),
        threads: 16,
        n: 0,
        replay: String::new(),
        profile: "checked".into(),
    };
    let mut i = 2;
    while i < a.len() {
        let v = a.get(i + 1).cloned().unwrap_or_default();
        match a[i].as_str() {
            "--tier" => o.tier = v,
            "--seed" => o.seed = v.parse().unwrap_or(1),
            "--drv" => o.drv = v,
            "--out" => o.out = v,
            "--replay-dir" => o.replay_dir = v,
            "--tmp" => o.tmp = v,
            "--known" => o.known = v,
            "--threads" => o.threads = v.parse().unwrap_or(16),
            "--n" => o.n = v.parse().unwrap_or(0),
            "--replay" => o.replay = v,
            "--profile" => o.profile = v,
            _ => {}
        }
        i += 2;
    }
    o
}

/// Developer tool: every encoding x n states, whole state compared; mismatches grouped.
fn explore(o: &Opts, out: &mut dyn Write) {
    MISMATCH_CAP.store(1_000_000, std::sync::atomic::Ordering::Relaxed);
    let mut rng = Rng::new(o.seed);
    let n = if o.n == 0 { 8 } else { o.n };
    let mut cases = vec![];
    for page in PAGES {
        for op in 0..=255u8 {
            if !is_row(page, op) {
                continue;
            }
            for k in 0..n {
                let mut s = state_for(&mut rng, page, op);
                if k % 4 == 3 {
                    s = with_ctl(&mut rng, s);
                }
                s.dbg = [k % 2 == 0, k % 8 >= 4, false, false];
                let mut c = Case::new(format!("{}:{:02X}", page.name(), op));
                c.push(Cmd::S(Box::new(s)), FULL);
                c.push(Cmd::X, Proj { r: false, ..FULL });
                c.push(Cmd::D, FULL);
                cases.push(c);
            }
        }
    }
    let st = run_cases(&o.drv, &o.tmp, cases, o.threads);
    writeln!(out, "cases {} lines {} panics {} mismatches {}", st.cases, st.lines, st.panics, st.mismatch_count).unwrap();
    let mut groups: BTreeMap<String, (usize, Mismatch)> = BTreeMap::new();
    for m in &st.mismatches {
        let key = format!("{} {}", m.tag, m.what);
        groups.entry(key).and_modify(|e| e.0 += 1).or_insert((1, m.clone()));
    }
    for (k, (n, m)) in groups {
        writeln!(out, "== {} x{}\n{}\n  imp:   {}\n  model: {}", k, n, m.script, m.imp, m.model).unwrap();
    }
}

// ------------------------------------------------------------------------------------------
// text -> Cmd (replays, corpus)
// ------------------------------------------------------------------------------------------
fn hx(s: &str) -> Option<u32> {
    u32::from_str_radix(s, 16).ok()
}

fn parse_regctl(t: &[&str], s: &mut St) -> Option<()> {
    if t.len() < 10 || t[0].len() != 28 || t[3].len() != 16 {
        return None;
    }
    for i in 0..14 {
        s.regs[i] = u8::from_str_radix(&t[0][2 * i..2 * i + 2], 16).ok()?;
    }
    s.sp = hx(t[1])? as u16;
    s.pc = hx(t[2])? as u16;
    for i in 0..8 {
        s.alt[i] = u8::from_str_radix(&t[3][2 * i..2 * i + 2], 16).ok()?;
    }
    s.halt = t[4] == "1";
    s.int = if t[5] == "--" { None } else { Some(hx(t[5])? as u8) };
    s.nmi = t[6] == "1";
    s.im = hx(t[7])? as u8;
    s.iff1 = t[8] == "1";
    s.iff2 = t[9] == "1";
    Some(())
}

pub fn parse_cmd(line: &str) -> Option<Cmd> {
    let t: Vec<&str> = line.split_whitespace().collect();
    let a16 = |i: usize| -> Option<u16> { Some(hx(t.get(i)?)? as u16) };
    match *t.first()? {
        "S" | "SN" => {
            let fresh = t[0] == "SN";
            let mut s = St::default();
            parse_regctl(&t[1..], &mut s)?;
            let d = t.get(11)?.as_bytes();
            for i in 0..4 {
                s.dbg[i] = *d.get(i)? == b'1';
            }
            s.stale = d.get(4) == Some(&b'1');
            s.sdur = hx(t.get(12)?)?;
            s.smax = hx(t.get(13)?)?;
            s.scur = hx(t.get(14)?)?;
            s.top = hx(t.get(15)?)? as u16;
            let rom = *t.get(16)?;
            s.rom = if rom == "-" {
                None
            } else {
                let mut p = rom.split(':');
                Some((hx(p.next()?)? as u16, hx(p.next()?)? as u16))
            };
            s.seed = hx(t.get(17)?)?;
            for o in t.iter().skip(19) {
                let mut p = o.split(':');
                s.ovr.push((hx(p.next()?)? as u16, hx(p.next()?)? as u8));
            }
            Some(if fresh { Cmd::SN(Box::new(s)) } else { Cmd::S(Box::new(s)) })
        }
        "P" => {
            let mut s = St::default();
            parse_regctl(&t[1..], &mut s)?;
            Some(Cmd::P(Box::new(s)))
        }
        "X" => Some(Cmd::X),
        "T" => Some(Cmd::T),
        "D" => Some(Cmd::D),
        "N" => Some(Cmd::N),
        "I" => Some(Cmd::I(hx(t.get(1)?)? as u8)),
        "WB" => Some(Cmd::WB(a16(1)?, hx(t.get(2)?)? as u8)),
        "WW" => Some(Cmd::WW(a16(1)?, a16(2)?)),
        "RB" => Some(Cmd::RB(a16(1)?)),
        "RW" => Some(Cmd::RW(a16(1)?)),
        "RLW" => Some(Cmd::RLW(a16(1)?)),
        "RLD" => Some(Cmd::RLD(a16(1)?)),
        "ROM" => Some(Cmd::ROM(a16(1)?, a16(2)?)),
        "SL" => Some(Cmd::SL(hx(t.get(1)?)? as usize, hx(t.get(2)?)? as usize)),
        "CL" => Some(Cmd::CL(hx(t.get(1)?)? as usize, hx(t.get(2)?)? as usize)),
        "LB" => {
            let len = if *t.get(2)? == "missing" { None } else { Some(hx(t.get(2)?)? as usize) };
            Some(Cmd::LB(a16(1)?, len, hx(t.get(3)?)?))
        }
        "DA" => Some(Cmd::DA(a16(1)?)),
        "SD" => Some(Cmd::SD(hx(t.get(1)?)?)),
        "NAP" => Some(Cmd::Nap(hx(t.get(1)?)?)),
        "SF" => Some(Cmd::SF(hx(t.get(1)?)?)),
        "SFB" => Some(Cmd::SFB(hx(t.get(1)?)?)),
        "SP16" => Some(Cmd::SetPair(hx(t.get(1)?)? as u8, a16(2)?)),
        "SWR" => Some(Cmd::SWR {
            which: hx(t.get(1)?)? as u8,
            blk: hx(t.get(2)?)?,
            nblk: hx(t.get(3)?)?,
            fmask: hx(t.get(4)?)? as u8,
            link: match (t.get(5), t.get(6)) { (Some(l), Some(d)) => Some((hx(l)? as u8, hx(d)? as u16)), _ => None },
        }),
        _ => None,
    }
}

/// replay file -> the case it holds (script lines between "script:" and "end-script")
fn load_replay(path: &str) -> Option<Case> {
    let txt = std::fs::read_to_string(path).ok()?;
    let mut c = Case::new("replay".into());
    let mut on = false;
    for l in txt.lines() {
        if l.starts_with("script:") {
            on = true;
            continue;
        }
        if l.starts_with("end-script") {
            break;
        }
        if on {
            if let Some(cmd) = parse_cmd(l) {
                c.push(cmd, Proj { r: false, dbg: 1, ..FULL });
            }
        }
    }
    Some(c)
}

fn jstr(s: &str) -> String {
    let mut o = String::from("\"");
    for ch in s.chars() {
        match ch {
            '"' => o.push_str("\\\""),
            '\\' => o.push_str("\\\\"),
            '\n' => o.push_str("\\n"),
            '\t' => o.push_str("\\t"),
            c if (c as u32) < 0x20 => o.push_str(&format!("\\u{:04x}", c as u32)),
            c => o.push(c),
        }
    }
    o.push('"');
    o
}

struct Known {
    findings: Vec<(String, String, String)>, // property, key, text
}

fn load_known(path: &str) -> Known {
    let mut k = Known { findings: vec![] };
    if let Ok(t) = std::fs::read_to_string(path) {
        for l in t.lines() {
            let l = l.trim();
            if let Some(rest) = l.strip_prefix("finding:") {
                let mut prop = String::new();
                let mut key = String::new();
                for tok in rest.split_whitespace() {
                    if let Some(p) = tok.strip_prefix("property=") {
                        prop = p.to_string();
                    }
                    if let Some(p) = tok.strip_prefix("key=") {
                        key = p.to_string();
                    }
                }
                k.findings.push((prop, key, rest.trim().to_string()));
            }
        }
    }
    k
}

fn run_property(o: &Opts, out: &mut dyn Write) -> i32 {
    let t0 = std::time::Instant::now();
    if let Ok(c) = std::env::var("VERIF_CAP") {
        if let Ok(n) = c.parse::<usize>() {
            MISMATCH_CAP.store(n, std::sync::atomic::Ordering::Relaxed);
        }
    }
    let mut rng = Rng::new(o.seed ^ 0xC0FFEE);
    let prop = o.prop.as_str();
    let mut total = Stats::default();
    let mut sweep_info: Vec<String> = vec![];
    let mut sweep_evals: u64 = 0;
    let mut exhaustive = false;

    // corpus of minimized past disagreements runs first
    let corpus_dir = format!("/verif/corpus/{}", prop);
    let mut corpus_cases = vec![];
    if let Ok(rd) = std::fs::read_dir(&corpus_dir) {
        let mut files: Vec<_> = rd.filter_map(|e| e.ok()).map(|e| e.path()).collect();
        files.sort();
        for f in files {
            if let Some(mut c) = load_replay(f.to_str().unwrap_or("")) {
                c.tag = format!("corpus/{}", f.file_name().and_then(|x| x.to_str()).unwrap_or("?"));
                c.key = c.tag.clone();
                corpus_cases.push(c);
            }
        }
    }
    let ncorpus = corpus_cases.len();
    if !corpus_cases.is_empty() {
        total.merge(run_cases(&o.drv, &o.tmp, corpus_cases, o.threads));
    }

    {
        let known = load_known(&o.known);
        let mut k = KNOWN_KEYS.lock().unwrap();
        for (p, key, _) in &known.findings {
            if p == prop {
                k.push(key.clone());
            }
        }
    }
    let cases: Vec<Case> = match prop {
        "C01" => props::c01(&mut rng, &o.tier),
        "C02" => props::c02(&mut rng, &o.tier),
        "C03" => props::c03(&mut rng, &o.tier),
        "C04" => props::c04(&mut rng, &o.tier),
        "C05" => props::c05(&mut rng, &o.tier),
        "C06" => props::c06(&mut rng, &o.tier),
        "C07" => props::c07(&mut rng, &o.tier),
        "C08" => props::c08(&mut rng, &o.tier),
        "C09" => props::c09(&mut rng, &o.tier),
        "C10" => props::c10(&mut rng, &o.tier),
        "C11" => props::c11(&mut rng, &o.tier),
        "C12" => props::c12(&mut rng, &o.tier),
        "C13" => props::c13(&mut rng, &o.tier),
        "C14" => props::c14(&mut rng, &o.tier),
        "C15" => props::c15(&mut rng, &o.tier),
        "C16" => props::c16(&mut rng, &o.tier),
        "C17" => props::c17(&mut rng, &o.tier),
        "C18" => props::c18(&mut rng, &o.tier),
        "C19" => props::c19(&mut rng, &o.tier),
        "C20" => props::c20(&mut rng, &o.tier),
        _ => {
            writeln!(out, "unknown property {}", prop).unwrap();
            return 2;
        }
    };
    let mut cases = cases;
    if std::env::var("VERIF_NO_SWR").is_err() {
        let sw = props::sweeps_for(prop, &mut rng, &o.tier);
        if !sw.is_empty() {
            let mut nsw = 0u64;
            let mut steps = 0u64;
            for c in &sw {
                for m in &c.cmds {
                    if let Cmd::SWR { nblk, .. } = m {
                        nsw += 1;
                        steps += 65536 / (*nblk).max(1) as u64;
                    }
                }
            }
            sweep_evals += steps;
            sweep_info.push(format!(
                "register sweeps: {} sweeps of one encoding over the values of a 16-bit register (all 65,536, or a block of them with a second register held in a fixed relation; memory carried along), {} steps on each side",
                nsw, steps
            ));
        }
        cases.extend(sw);
    }
    cases.extend(props::straddle_cases(&mut rng, prop, &o.tier));
    cases.extend(props::ctl_cases(&mut rng, prop, &o.tier));
    cases.extend(props::long_cases(&mut rng, prop, &o.tier));
    cases.extend(props::rom_cases(&mut rng, prop, &o.tier));
    if std::env::var("VERIF_NO_HIST").is_err() {
        cases.extend(props::hist_for(prop, &mut rng, &o.tier));
    }
    if matches!(prop, "C09") && o.tier == "thorough" {
        exhaustive = true;
    }
    // big case lists are processed in slices to bound memory
    let mut it = cases.into_iter().peekable();
    while it.peek().is_some() {
        let batch: Vec<Case> = it.by_ref().take(60_000).collect();
        total.merge(run_cases(&o.drv, &o.tmp, batch, o.threads));
    }

    if prop == "C02" {
        // exhaustive sweeps, hashed per block; quick: every block of the arithmetic cores and
        // every single-block sweep, 1/8 of the blocks of the rest; thorough: everything
        exhaustive = o.tier == "thorough";
        let mut jobs: Vec<(usize, u8)> = vec![];
        for (si, sw) in sweeps::SWEEPS.iter().enumerate() {
            for b in sweeps::blocks_of(sw) {
                let dense = matches!(sw.name, "add" | "adc" | "sub" | "sbc" | "cp") || sw.kind == "af" || sw.kind == "bf";
                if o.tier == "thorough" || dense || (b as u64 + o.seed) % 8 == 0 || matches!(b, 0x00 | 0x7F | 0x80 | 0xFF) {
                    jobs.push((si, b));
                }
            }
        }
        // model side: one driver process per thread, jobs interleaved
        let nthreads = o.threads.max(1);
        let results = std::sync::Mutex::new(Vec::new());
        std::thread::scope(|s| {
            for t in 0..nthreads {
                let jobs = &jobs;
                let results = &results;
                let drv = &o.drv;
                s.spawn(move || {
                    let mine: Vec<(usize, u8)> = jobs.iter().copied().skip(t).step_by(nthreads).collect();
                    if mine.is_empty() {
                        return;
                    }
                    let input: String = mine.iter().map(|(si, b)| format!("SW {} {:02X}\n", sweeps::SWEEPS[*si].name, b)).collect();
                    let model = run_driver(drv, input);
                    let mut outv = vec![];
                    for (j, (si, b)) in mine.iter().enumerate() {
                        let imp = sweeps::imp_block(&sweeps::SWEEPS[*si], *b);
                        let m = model.get(j).cloned().unwrap_or_default();
                        outv.push((*si, *b, imp, m));
                    }
                    results.lock().unwrap().extend(outv);
                });
            }
        });
        let mut bad: Vec<(usize, u8)> = vec![];
        let mut per: BTreeMap<&str, (u64, u64)> = BTreeMap::new();
        for (si, b, imp, m) in results.into_inner().unwrap() {
            let sw = &sweeps::SWEEPS[si];
            let e = per.entry(sw.name).or_insert((0, 0));
            e.0 += 1;
            e.1 += sweeps::evals_per_block(sw);
            sweep_evals += sweeps::evals_per_block(sw);
            let ok = match &imp {
                Ok(h) => format!("H {:016X}", h) == m,
                Err(_) => false,
            };
            if !ok {
                bad.push((si, b));
            }
        }
        for (name, (blocks, evals)) in &per {
            sweep_info.push(format!("{}: {} blocks, {} triples", name, blocks, evals));
        }
        bad.sort();
        // expand the first differing blocks into ordinary cases to get the failing input
        for (si, b) in bad.iter().take(3) {
            let mut cs = sweeps::expand_block(&sweeps::SWEEPS[*si], *b);
            for c in cs.iter_mut() {
                c.key = format!("sweep:{}", sweeps::SWEEPS[*si].name);
            }
            let st = run_cases(&o.drv, &o.tmp, cs, o.threads);
            if st.mismatch_count == 0 {
                // hash differs but no case does: report as broken correspondence
                total.mismatch_count += 1;
                total.mismatches.push(Mismatch {
                    tag: format!("sweep:{}", sweeps::SWEEPS[*si].name),
                    key: format!("sweep:{}", sweeps::SWEEPS[*si].name),
                    script: format!("SW {} {:02X}", sweeps::SWEEPS[*si].name, b),
                    line_no: 0,
                    cmd: "SW".into(),
                    imp: "hash differs".into(),
                    model: "hash differs".into(),
                    what: "no-failing-input-found".into(),
                    oracle: false,
                });
            }
            total.merge(st);
        }
    }

    if prop == "C02" && o.tier == "thorough" && std::env::var("VERIF_NO_W16X").is_err() {
        // exhaustive 16-bit cores: every HL x DE x carry (2^33 cases per instruction), one hash per H
        let mut jobs: Vec<(usize, u8)> = vec![];
        for (si, sw) in sweeps::SWEEPS.iter().enumerate() {
            if sw.kind == "w16" {
                for b in 0..=255u8 {
                    jobs.push((si, b));
                }
            }
        }
        let nthreads = o.threads.max(1);
        let results = std::sync::Mutex::new(Vec::new());
        std::thread::scope(|s| {
            for t in 0..nthreads {
                let jobs = &jobs;
                let results = &results;
                let drv = &o.drv;
                s.spawn(move || {
                    let mine: Vec<(usize, u8)> = jobs.iter().copied().skip(t).step_by(nthreads).collect();
                    if mine.is_empty() {
                        return;
                    }
                    let input: String = mine.iter().map(|(si, b)| format!("SWX {} {:02X}\n", sweeps::SWEEPS[*si].name, b)).collect();
                    let model = run_driver(drv, input);
                    let mut outv = vec![];
                    for (j, (si, b)) in mine.iter().enumerate() {
                        let imp = sweeps::imp_block16x(&sweeps::SWEEPS[*si], *b, None);
                        outv.push((*si, *b, imp, model.get(j).cloned().unwrap_or_default()));
                    }
                    results.lock().unwrap().extend(outv);
                });
            }
        });
        let mut bad: Vec<(usize, u8)> = vec![];
        let mut per: BTreeMap<&str, u64> = BTreeMap::new();
        for (si, b, imp, m) in results.into_inner().unwrap() {
            *per.entry(sweeps::SWEEPS[si].name).or_insert(0) += 1 << 25;
            sweep_evals += 1 << 25;
            let ok = match &imp {
                Ok(h) => format!("H {:016X}", h) == m,
                Err(_) => false,
            };
            if !ok {
                bad.push((si, b));
            }
        }
        for (name, evals) in &per {
            sweep_info.push(format!("{} exhaustive: every HL, DE and carry, {} cases", name, evals));
        }
        bad.sort();
        for (si, hh) in bad.iter().take(2) {
            let sw = &sweeps::SWEEPS[*si];
            // narrow to one L, then expand
            let input: String = (0..=255u8).map(|l| format!("SWX {} {:02X} {:02X}\n", sw.name, hh, l)).collect();
            let model = run_driver(&o.drv, input);
            let mut found = false;
            for l in 0..=255u8 {
                let imp = sweeps::imp_block16x(sw, *hh, Some(l));
                let ok = match &imp {
                    Ok(h) => Some(&format!("H {:016X}", h)) == model.get(l as usize),
                    Err(_) => false,
                };
                if !ok {
                    let mut cs = sweeps::expand_block16x(sw, *hh, l);
                    for c in cs.iter_mut() {
                        c.key = format!("sweep:{}", sw.name);
                    }
                    let st = run_cases(&o.drv, &o.tmp, cs, o.threads);
                    found = st.mismatch_count > 0;
                    total.merge(st);
                    break;
                }
            }
            if !found {
                total.mismatch_count += 1;
                total.mismatches.push(Mismatch {
                    tag: format!("sweep:{}", sw.name),
                    key: format!("sweep:{}", sw.name),
                    script: format!("SWX {} {:02X}", sw.name, hh),
                    line_no: 0,
                    cmd: "SWX".into(),
                    imp: "hash differs".into(),
                    model: "hash differs".into(),
                    what: "no-failing-input-found".into(),
                    oracle: false,
                });
            }
        }
    }

    // register sweeps that differ: look for the failing value among single steps from fresh states
    {
        let sw: Vec<(String, String, String)> = total
            .mismatches
            .iter()
            .filter(|m| m.cmd.starts_with("SWR"))
            .take(2)
            .map(|m| (m.script.clone(), m.key.clone(), m.tag.clone()))
            .collect();
        for (script, key, tag) in sw {
            let mut st: Option<St> = None;
            let mut swr = None;
            for l in script.lines() {
                match parse_cmd(l) {
                    Some(Cmd::S(s)) | Some(Cmd::SN(s)) => st = Some(*s),
                    Some(Cmd::SWR { which, blk, nblk, fmask, link }) => swr = Some((which, blk, nblk, fmask, link)),
                    _ => {}
                }
            }
            if let (Some(s0), Some((which, blk, nblk, fmask, link))) = (st, swr) {
                let per = 65536 / nblk.max(1);
                let mut cs = vec![];
                for k in 0..per {
                    let v = (blk * per + k) as u16;
                    let mut s = s0.clone();
                    let mut sets: Vec<(u8, u16)> = vec![(which, v)];
                    if let Some((l, d)) = link {
                        sets.push((l, v.wrapping_add(d)));
                    }
                    for (w, v) in sets {
                        match w {
                            0 => s.set_pair(B, v),
                            1 => s.set_pair(D, v),
                            2 => s.set_pair(H, v),
                            3 => s.set_pair(IXH, v),
                            4 => s.set_pair(IYH, v),
                            5 => s.sp = v,
                            6 => s.pc = v,
                            _ => s.set_pair(A, v),
                        }
                    }
                    let mut c = Case::new(format!("{}/value", tag));
                    c.key = key.clone();
                    c.push(Cmd::S(Box::new(s)), NONE);
                    c.push(Cmd::X, props::proj_for_sweep(prop, fmask));
                    c.push(Cmd::D, Proj { other: props::proj_for_sweep(prop, fmask).regs, ..NONE });
                    cs.push(c);
                }
                let st = run_cases(&o.drv, &o.tmp, cs, o.threads);
                if st.mismatch_count > 0 {
                    // the single failing values stand for the sweep line: report those first
                    if let Some(ix) = total.mismatches.iter().position(|m| m.cmd.starts_with("SWR") && m.script == script) {
                        total.mismatches.remove(ix);
                        total.mismatch_count -= 1;
                    }
                    let mut st = st;
                    st.mismatches.truncate(2);
                    let rest = std::mem::take(&mut total.mismatches);
                    total.mismatches = st.mismatches.drain(..).collect();
                    total.mismatches.extend(rest);
                    total.mismatch_count += st.mismatch_count;
                    total.oracle_count += st.oracle_count;
                    total.cases += st.cases;
                    total.lines += st.lines;
                }
            }
        }
    }

    // failing API histories: drop every operation that is not needed for the disagreement
    {
        let hs: Vec<usize> = total.mismatches.iter().enumerate().filter(|(_, m)| m.tag.starts_with("api-history")).map(|(i, _)| i).take(2).collect();
        for ix in hs {
            let script = total.mismatches[ix].script.clone();
            let mut cmds: Vec<Cmd> = script.lines().filter_map(parse_cmd).collect();
            let fails = |cmds: &Vec<Cmd>| -> Option<Stats> {
                let mut c = Case::new(total.mismatches[ix].tag.clone());
                c.key = total.mismatches[ix].key.clone();
                for m in cmds {
                    c.push(m.clone(), props::hist_line_proj(prop, m));
                }
                let st = run_cases(&o.drv, &o.tmp, vec![c], 1);
                if st.mismatch_count > 0 { Some(st) } else { None }
            };
            if cmds.len() < 2 || fails(&cmds).is_none() {
                continue;
            }
            let mut best = None;
            let mut i = cmds.len() - 1;
            let mut budget = 400;
            while i >= 1 && budget > 0 {
                let mut trial = cmds.clone();
                trial.remove(i);
                budget -= 1;
                if let Some(st) = fails(&trial) {
                    cmds = trial;
                    best = Some(st);
                }
                i -= 1;
            }
            if let Some(mut st) = best {
                if let Some(m) = st.mismatches.pop() {
                    total.mismatches[ix] = Mismatch { tag: format!("{}/minimised", m.tag), ..m };
                }
            }
        }
    }

    // classify
    let known = load_known(&o.known);
    std::fs::create_dir_all(&o.replay_dir).ok();
    let mut violations = 0;
    let mut known_hits: BTreeMap<String, u64> = BTreeMap::new();
    let mut printed: BTreeMap<String, u32> = BTreeMap::new();
    let mut vio_lines = vec![];
    for (i, m) in total.mismatches.iter().enumerate() {
        if let Some(k) = known
            .findings
            .iter()
            .find(|(p, key, _)| p == prop && m.oracle && (m.key == *key || m.key.starts_with(&format!("{}/", key))))
        {
            *known_hits.entry(k.2.clone()).or_insert(0) += 1;
            continue;
        }
        violations += 1;
        let n = printed.entry(m.key.clone()).or_insert(0);
        *n += 1;
        if *n > 1 || vio_lines.len() >= 12 {
            continue;
        }
        let path = format!("{}/{}-{}-{}-{}.case", o.replay_dir, prop, o.tier, o.seed, i);
        let nf = m.what.contains("no-failing-input-found");
        let body = format!(
            "property: {}\nclass: {}\nwhat: {}\nkind: {}\nprofile: {}\nat: request #{} `{}`\nimplementation: {}\nmodel/oracle:   {}\n{}script:\n{}\nend-script\n",
            prop,
            m.tag,
            m.what,
            if m.oracle {
                "the implementation contradicts the property's oracle on its own behaviour"
            } else {
                "the implementation differs from the proved model on an observable the property constrains"
            },
            o.profile,
            m.line_no,
            m.cmd,
            m.imp,
            m.model,
            if nf { format!("no-failing-input-found: correspondence sweep `{}` no longer checks\n", m.tag) } else { String::new() },
            m.script
        );
        std::fs::write(&path, body).ok();
        vio_lines.push(format!("VIOLATION property={} replay={}{}", prop, path, if nf { " no-failing-input-found" } else { "" }));
    }
    // mismatches beyond the stored cap count as violations as well
    let stored_known = total.mismatches.iter().filter(|m| known.findings.iter().any(|(p, key, _)| p == prop && m.oracle && (m.key == *key || m.key.starts_with(&format!("{}/", key))))).count() as u64;
    let unstored = (total.mismatch_count - total.known_count).saturating_sub(total.mismatches.len() as u64 - stored_known);
    for l in &vio_lines {
        writeln!(out, "{}", l).unwrap();
    }
    for (k, n) in &known_hits {
        writeln!(out, "KNOWN-FINDING: {} ({} cases this run)", k, n).unwrap();
    }
    // evidence fragment
    let wall = t0.elapsed().as_secs_f64();
    let mut j = String::from("{\n");
    j.push_str(&format!("  \"cases\": {},\n", total.cases));
    j.push_str(&format!("  \"lines\": {},\n", total.lines));
    j.push_str(&format!("  \"evaluations\": {},\n", total.lines + sweep_evals));
    j.push_str(&format!("  \"distinct_classes\": {},\n", total.tags.len()));
    j.push_str(&format!("  \"distinct_nontrivial\": {},\n", total.nontrivial.len()));
    j.push_str(&format!("  \"relations_checked_on_impl\": {},\n", total.relations));
    j.push_str(&format!("  \"aborts\": {},\n", total.panics));
    j.push_str(&format!("  \"disagreements_model\": {},\n", total.mismatch_count - total.oracle_count));
    j.push_str(&format!("  \"violations_oracle\": {},\n", total.oracle_count));
    j.push_str(&format!("  \"violations\": {},\n", violations + unstored));
    j.push_str(&format!("  \"known_findings_hit\": {},\n", total.known_count));
    j.push_str(&format!("  \"corpus_cases\": {},\n", ncorpus));
    j.push_str(&format!("  \"exhaustive\": {},\n", exhaustive));
    j.push_str(&format!("  \"profile\": {},\n", jstr(&o.profile)));
    j.push_str(&format!("  \"sweeps\": [{}],\n", sweep_info.iter().map(|s| jstr(s)).collect::<Vec<_>>().join(", ")));
    j.push_str(&format!("  \"samples\": [{}],\n", total.samples.iter().map(|s| jstr(s)).collect::<Vec<_>>().join(", ")));
    j.push_str(&format!("  \"wall_s\": {:.2}\n}}\n", wall));
    if !o.out.is_empty() {
        std::fs::write(&o.out, j).ok();
    }
    writeln!(
        out,
        "{} {} seed={} profile={}: {} cases, {} replies compared, {} relations, {} sweep evaluations, {} aborts, {} disagreements ({} oracle), {} known, {:.1}s",
        prop,
        o.tier,
        o.seed,
        o.profile,
        total.cases,
        total.lines,
        total.relations,
        sweep_evals,
        total.panics,
        total.mismatch_count,
        total.oracle_count,
        known_hits.values().sum::<u64>(),
        wall
    )
    .unwrap();
    if violations > 0 || unstored > 0 {
        1
    } else {
        0
    }
}

fn replay(o: &Opts, out: &mut dyn Write) -> i32 {
    let Some(c) = load_replay(&o.replay) else {
        writeln!(out, "cannot read {}", o.replay).unwrap();
        return 2;
    };
    let st = run_chunk(&o.drv, &o.tmp, &[c]);
    for m in &st.mismatches {
        writeln!(out, "at request #{} `{}`: {}\n  implementation: {}\n  model:          {}", m.line_no, m.cmd, m.what, m.imp, m.model).unwrap();
    }
    writeln!(out, "replayed {} requests: {} disagreement(s), {} abort(s)", st.lines, st.mismatch_count, st.panics).unwrap();
    if st.mismatch_count > 0 {
        1
    } else {
        0
    }
}

fn main() {
    let mut out = steal_stdout();
    std::panic::set_hook(Box::new(|_| {}));
    let o = parse_opts();
    std::fs::create_dir_all(&o.tmp).ok();
    let rc = match o.prop.as_str() {
        "explore" => {
            explore(&o, &mut out);
            0
        }
        "replay" => replay(&o, &mut out),
        _ => run_property(&o, &mut out),
    };
    out.flush().ok();
    std::process::exit(rc);
}
