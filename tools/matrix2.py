#!/usr/bin/env python3
"""matrix2.py [-p Cxx,Cyy] [seeded-name ...]: like matrix.py but on scratch copies, so that /repo and /verif/harness are
never touched: a scratch worktree of /repo HEAD and a copy of the harness whose path dependency points at it.  For each
seeded change: apply it to the scratch worktree, rebuild the scratch harness (both profiles), run the quick correspondence
of the chosen properties (default: all; the proofs do not depend on /repo), undo.  Records caught_by_quick in meta.json
(merged with what is there when -p restricts the set).  Scratch trees are removed at the end."""
import json, os, shutil, subprocess, sys, tempfile
V = "/verif"
args = sys.argv[1:]
props = ["C%02d" % i for i in range(1, 21)]
restricted = False
if args and args[0] == "-p":
    props = args[1].split(","); args = args[2:]; restricted = True
names = args or sorted(os.listdir(os.environ.get("MX_DIR", V + "/seeded")))
root = tempfile.mkdtemp(prefix="mx_", dir="/tmp")
wt = root + "/repo"; hz = root + "/harness"; work = root + "/work"
os.makedirs(work)
subprocess.run(["git", "-C", "/repo", "worktree", "add", "-q", "--detach", wt, "HEAD"], check=True)
shutil.copytree(V + "/harness", hz, ignore=shutil.ignore_patterns("target"))
t = open(hz + "/Cargo.toml").read().replace('path = "/repo"', 'path = "%s"' % wt)
open(hz + "/Cargo.toml", "w").write(t)
env = dict(os.environ, CARGO_NET_OFFLINE="true", VERIF_KNOWN=V + "/known_findings.txt")
drv = root + "/z80drv"   # a private copy: rebuilding the driver while this runs must not disturb it
shutil.copy(V + "/lean/.lake/build/bin/z80drv", drv)
try:
    for n in names:
        d = os.environ.get("MX_DIR", V + "/seeded") + "/" + n
        if not os.path.exists(d + "/patch.diff"):
            continue
        if subprocess.run(["git", "-C", wt, "apply", d + "/patch.diff"]).returncode != 0:
            print(n, "patch does not apply", flush=True); continue
        try:
            caught = []
            for prof, cmd, binp in (("checked", ["cargo", "build", "--release", "--offline"], "target/release/z80harness"),
                                    ("wrap", ["cargo", "build", "--profile", "wrap", "--offline"], "target/wrap/z80harness")):
                if prof == "wrap" and not any(p in ("C06", "C08") for p in props):
                    continue
                b = subprocess.run(cmd, cwd=hz, env=env, capture_output=True, text=True)
                if b.returncode != 0:
                    caught.append("build:" + prof); continue
                for p in props:
                    if prof == "wrap" and p not in ("C06", "C08"):
                        continue
                    r = subprocess.run([hz + "/" + binp, p, "--tier", "quick", "--seed", "1", "--replay-dir", work + "/replay",
                                        "--tmp", work, "--profile", prof, "--drv", drv], capture_output=True, text=True, env=env)
                    if r.returncode != 0 and p not in caught:
                        caught.append(p)
            meta = json.load(open(d + "/meta.json"))
            old = set(meta.get("caught_by_quick", []))
            if restricted:
                new = (old - set(props)) | set(caught)
            else:
                new = set(caught)
            meta["caught_by_quick"] = sorted(new)
            json.dump(meta, open(d + "/meta.json", "w"), indent=1)
            print(n, meta["property"], "caught by", sorted(caught), "(of %s)" % ",".join(props) if restricted else "", flush=True)
        finally:
            subprocess.run(["git", "-C", wt, "checkout", "--", "."])
finally:
    subprocess.run(["git", "-C", "/repo", "worktree", "remove", "--force", wt])
    shutil.rmtree(root, ignore_errors=True)
