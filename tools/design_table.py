#!/usr/bin/env python3
"""design_table.py: print the markdown table of seeded changes (DESIGN.md section 7) from seeded/*/meta.json"""
import json, os
V = "/verif/seeded"
print("| seeded change | aimed at | needs to manifest | quick checks that report it |")
print("|---|---|---|---|")
for n in sorted(os.listdir(V)):
    m = V + "/" + n + "/meta.json"
    if not os.path.exists(m):
        continue
    d = json.load(open(m))
    print("| %s | %s | %s | %s |" % (n, d["property"], d["needs_to_manifest"].replace("|", "/"), ", ".join(d["caught_by_quick"])))
