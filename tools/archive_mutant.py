#!/usr/bin/env python3
"""archive_mutant.py <worktree-id> <seed-name> <property> <caught-by csv> <needs...>: copy a confirmed seeded change to /verif/seeded/<name>/"""
import json, os, shutil, subprocess, sys
wid, name, prop, caught = sys.argv[1:5]
needs = " ".join(sys.argv[5:])
src = os.environ.get("MUTROOT", "/tmp/mut4") + "/" + wid
dst = "/verif/seeded/" + name
os.makedirs(dst, exist_ok=True)
shutil.copy(src + "/mutation.diff", dst + "/patch.diff")
shutil.copy(src + "/tests/demo_mutation.rs", dst + "/demo_mutation.rs")
if os.path.exists(src + "/NOTES.md"):
    shutil.copy(src + "/NOTES.md", dst + "/NOTES.md")
meta = {
    "property": prop,
    "origin": "written by a fresh sub-agent that saw only the property text and its own scratch worktree",
    "needs_to_manifest": needs,
    "confirmed": "tools/verify_mutant.sh: patch applies to /repo HEAD, `cargo test --lib` passes the same 185 tests, "
                 "tests/demo_mutation.rs passes without the patch and fails with it",
    "checks_run": "tools/run_mutant.sh (git -C /repo apply patch.diff; ./check <id> --tier quick; git -C /repo checkout -- .)",
    "caught_by_quick": [c for c in caught.split(",") if c],
    "repo_commit": subprocess.run(["git", "-C", "/repo", "rev-parse", "--short", "HEAD"], capture_output=True, text=True).stdout.strip(),
}
json.dump(meta, open(dst + "/meta.json", "w"), indent=1)
print("archived", dst)
