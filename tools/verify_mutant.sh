#!/bin/bash
# usage: verify_mutant.sh <Cxx> : independent confirmation of a sub-agent's seeded change
# (fresh scratch worktree, suite unchanged, demo fails with / passes without), removes the scratch tree
set -u
id=$1; root=${MUTROOT:-/tmp/mut4}; src=$root/$id; wt=${root}v/$id
rm -rf $wt; mkdir -p ${root}v
git -C /repo worktree add -q --detach $wt HEAD || exit 2
cd $wt
export CARGO_TARGET_DIR=$wt/target CARGO_NET_OFFLINE=true
cargo test --offline --lib 2>&1 | grep -E "^test .* ok$" | sort > $wt/base_pass.txt
cp $src/tests/demo_mutation.rs tests/ 2>/dev/null || { mkdir -p tests; cp $src/tests/demo_mutation.rs tests/; }
cargo test --offline --test demo_mutation 2>&1 | grep "test result" > $wt/demo_without.txt
git apply $src/mutation.diff || { echo "PATCH DOES NOT APPLY"; exit 3; }
cargo build --offline 2>&1 | grep -E "^error" | head -3
cargo test --offline --lib 2>&1 | grep -E "^test .* ok$" | sort > $wt/mut_pass.txt
cargo test --offline --test demo_mutation 2>&1 | grep "test result" > $wt/demo_with.txt
echo "$id suite: base $(wc -l < base_pass.txt) pass, mutated $(wc -l < mut_pass.txt) pass, same-set=$(cmp -s base_pass.txt mut_pass.txt && echo yes || echo NO)"
echo "$id demo without: $(cat demo_without.txt)"
echo "$id demo with:    $(cat demo_with.txt)"
cd /; git -C /repo worktree remove --force $wt
