#!/usr/bin/env python3
"""Writes /verif/MANIFEST.json from the property list and the theorem files that exist."""
import json, os, re, subprocess
V = "/verif"
props = [json.loads(l) for l in open(V + "/properties.jsonl")]
commits = subprocess.run(["git", "-C", "/repo", "log", "--format=%h %s"], capture_output=True, text=True).stdout.strip().split("\n")
hook_commits = [c.split()[0] for c in commits if c.split(" ", 1)[1].startswith("verif hooks")]
SECTION = {p["id"]: "DESIGN.md section 4, " + p["id"] for p in props}
PROOF_TEXT = {
 "C01": "Theorems: every instruction's register/memory effect equals the manual's parallel-assignment specification (per class), frame theorems for registers and memory; model tied to the code by the per-encoding correspondence (all 1,792 encodings x boundary/seeded states, block repeats with BC=0 from ROM, lock-step programs). Register sweeps: every encoding x each 16-bit register x all 65,536 values of it (and pairs of registers held in a fixed relation), one hash per sweep on implementation and model, expanded to the failing value. Instructions straddling the top of small memories.",
 "C02": "Theorems: each ALU/rotate/shift/DAA/NEG/RLD/RRD/BIT/CPI/LDI core of the model (the code's formulation) equals the arithmetic specification for all operands and incoming flags; tie: exhaustive 2^24 / 2^16 operand sweeps through real opcodes, hashed per block, plus per-encoding flag routing. Register sweeps: every encoding x each 16-bit register x all 65,536 values of it (and pairs of registers held in a fixed relation), one hash per sweep on implementation and model, expanded to the failing value. Thorough tier: the 16-bit cores exhaustively (2^33 cases each).",
 "C03": "Theorems: PC after every non-transfer = pc + encoded length (mod 65,536), branch targets and conditions, CALL/RST linkage bytes, RET reload, call/return nesting by induction; tie: every encoding x all 256 F x displacement and PC/SP edge classes. Register sweeps: every encoding x each 16-bit register x all 65,536 values of it (and pairs of registers held in a fixed relation), one hash per sweep on implementation and model, expanded to the failing value. Every PC of random images; instructions straddling the top of small memories.",
 "C04": "Theorems: for every documented encoding the model's count (the code's tables + conditional increments) equals the Zilog figure per instruction class, both outcomes; halted step = 4. Block repeats: the full statement is disproved by a witness (known finding, pinned by the repo's tests). Tie: every encoding x outcomes, implementation count compared with the Zilog figure directly. Register sweeps: every encoding x each 16-bit register x all 65,536 values of it (and pairs of registers held in a fixed relation), one hash per sweep on implementation and model, expanded to the failing value. Instructions straddling the top of small memories.",
 "C05": "Theorems: the step is total; on an encoding without an arm it returns 255, changes only PC (by the decoded length) and records the opcode bytes in hex; every documented non-I/O encoding decodes to an executed instruction. Tie: all 1,792 rows x states x diagnostics on/off. Register sweeps: every encoding x each 16-bit register x all 65,536 values of it (and pairs of registers held in a fixed relation), one hash per sweep on implementation and model, expanded to the failing value. Instructions straddling the top of small memories.",
 "C06": "Theorems: every address computation of the model is the modular one (two-branch displacement = sign extension, relative targets, operand fetches, stack, word access at 0xFFFF); the model is total. That the Rust code does not panic is decided by the correspondence only (abort = observable outcome, both build profiles). Register sweeps: every encoding x each 16-bit register x all 65,536 values of it (and pairs of registers held in a fixed relation), one hash per sweep on implementation and model, expanded to the failing value. Every PC of random images on three memory sizes, both build profiles.",
 "C07": "Theorems: byte and word writes never change a ROM byte for every window/alignment/size; every instruction, every step (with interrupt pushes), every unbounded history preserves ROM bytes; writes outside the window take effect. Tie: exhaustive small buses, boundary windows on 64 KiB, every encoding with the window ends placed around its probed write set, random programs. API histories: random sequences of every public call on one object (minimised when they fail). Theorem: the ROM declaration survives every host call except set_romspace (failed/refused/successful loads and clears included).",
 "C08": "Theorems: read-after-write, non-interference, reads above top = 0, writes above top ignored, word/dword accessors = composition of byte accesses (wrapping), word round trip. Tie: all addresses x sizes x word values on both build profiles. API histories: random sequences of every public call on one object (minimised when they fail).",
 "C09": "Theorems: get(set v) = v, halves = hi/lo, other fields unchanged, for all 65,536 values of each pair; flag byte <-> 8 flags bijection with the documented bit positions; PUSH/POP AF, EX AF,AF', EXX carry all bits. Tie: exhaustive accessor round trips and AF transports. Register sweeps of the stack/exchange rows over every SP, AF and pair value.",
 "C10": "Theorems: decode(FD op) = rename(decode(DD op)) for every row where both are implemented (kernel-checked tables) and exec commutes with exchanging IX and IY; tie: the relation evaluated on the implementation for all DD/FD and DDCB/FDCB rows. Register sweeps of every DD/FD/DDCB/FDCB row over all IX, IY, HL, AF, SP values against the model (which provably treats both forms alike), full flag byte.",
 "C11": "Theorems on the step function for every control state: accepted iff IFF1, vector per mode, pushed address, IFF1/IFF2 cleared, latch consumed; acceptances never exceed requests over any history. Tie: control-state grid x all request bytes, exhaustive short histories + random long ones. API histories: random sequences of every public call on one object (minimised when they fail).",
 "C12": "Theorem: with IFF1 clear, step(s with request) = step(s without) on registers, flags, memory, PC, T-states, for every encoding. Tie: twin runs on the implementation for every encoding x request bytes x modes. API histories: random sequences of every public call on one object (minimised when they fail). Theorem and twins for timed stepping (same sleep requests and slice counters).",
 "C13": "Theorems: NMI acceptance regardless of IFF1/mode (PC=0x66, pushed PC, IFF2:=IFF1, IFF1:=0, simultaneous INT dropped), RETN restores, LD A,I/R expose IFF2; NMI..RETN restores IFF1 over any handler without EI/DI. Tie: control grid + histories. API histories: random sequences of every public call on one object (minimised when they fail).",
 "C14": "Theorems: halted idle step = (unchanged state, 4 T) for any number of steps; wake-up by NMI / enabled INT enters the handler with HALT address + 1 pushed. Tie: HALT scenarios x idle counts x request kinds. API histories: random sequences of every public call on one object (minimised when they fail).",
 "C15": "Theorems: for every recognised opcode the disassembler's size equals the decoder's length (kernel-checked over both tables), hence the PC advance of a non-transfer step. Tie: all 512 rows x operands x addresses. API histories: random sequences of every public call on one object (minimised when they fail).",
 "C16": "Theorems: every template = opcode hex + operand holes + the mnemonic of the decoded instruction in the repository's notation (kernel-checked, 512 rows); templates are pairwise distinct; relative target hole = address + 2 + sext e. Tie: all rows x operand bytes x pair values x addresses. API histories: random sequences of every public call on one object (minimised when they fail).",
 "C17": "Theorems: the architectural outcome of a step is a function of the architectural state alone (diagnostic switches, stale text and slice counters do not enter); no request survives a non-halted step. Tie: twin implementation runs over all 16 switch sets and different prior histories. API histories: random sequences of every public call on one object (minimised when they fail).",
 "C18": "Theorems: timed step = plain step architecturally; a sleep request is returned exactly when the counter exceeds the budget; requested sleep <= slice duration; counter = sum of T-states since the last request (induction over histories). The budget f x 1000 x d: exact integer theorem for f in eighths of a MHz; that the f32 code yields it is checked on the implementation for that grid x every d dividing 1000. API histories: random sequences of every public call on one object (minimised when they fail). Theorems: what every host call does to the slice bookkeeping (clock changes mid-slice keep the count); exact-arithmetic budget for any f32 clock (Spec.Budget), compared with the implementation on real crystal frequencies and random singles wherever the fraction is not within 0.05 of an integer.",
 "C19": "Theorems: LDIR/LDDR = LDI/LDD iterated n times (n = BC, or 65,536 for 0), CPIR/CPDR = CPI/CPD iterated until match or BC = 0, by induction, any overlap/wrap/ROM. Tie: relation evaluated on the implementation (repeat vs single steps). Memories smaller than 64K with blocks reaching above the top address.",
 "C20": "Theorems: slice read returns exactly mem[start..end]; clear zeroes exactly those bytes; load copies the file at the origin, returns its length, leaves the rest; missing file = error value. Tie: all (start,end) of small buses, boundary pairs of large ones, files of every length. API histories: random sequences of every public call on one object (minimised when they fail).",
}
checks = []
for p in props:
    pid = p["id"]
    has = os.path.exists("%s/lean/Z80/Props/%s.lean" % (V, pid))
    cat = "proof" if has else "translation_validation"
    text = PROOF_TEXT[pid] if has else ("(theorems for this property are not written yet; this entry currently rests on the correspondence only) " + PROOF_TEXT[pid])
    checks.append({
        "property_id": pid,
        "quick_cmd": "./check %s --tier quick" % pid,
        "thorough_cmd": "./check %s --tier thorough" % pid,
        "evidence_file": "/verif/evidence/%s.json" % pid,
        "replay_cmd_template": "./check %s --replay {path}" % pid,
        "engine": "lean-proof+correspondence",
        "level_claimed": {"category": cat, "text": text, "design_ref": SECTION[pid]},
        "level_note": "Trusted: Lean 4.33 kernel; axioms propext/Quot.sound/Classical.choice only (audited per theorem on every run); the hand-written model as a description of /repo only as far as the correspondence of the run reaches; Z80.Spec (transcription of the Zilog manual); the Rust harness and the per-property projection. Rust panics, f32, stdout and file I/O are observed by the correspondence, not proved.",
        "technique": "Lean 4 theorems about a hand-written executable model + differential correspondence check against the real crate",
    })
m = {
    "version": 1,
    "setup_cmd": "./check --setup",
    "hooks": {
        "guard": "zilogz80_verif",
        "enable": "RUSTFLAGS=\"--cfg zilogz80_verif\" (set in /verif/harness/.cargo/config.toml); the harness depends on /repo by path",
        "baseline_off_cmd": "cd /repo && cargo test --workspace --no-fail-fast --offline",
        "source_commits": hook_commits,
        "add_only": True,
    },
    "engines": [
        {"name": "lean-proof+correspondence", "path": "/verif/lean, /verif/harness, /verif/check",
         "serves_properties": [p["id"] for p in props],
         "kind_free_text": "Lean 4 model + theorems (lake project Z80, driver z80drv), Rust differential harness linking the real crate with cfg hooks"}
    ],
    "checks": checks,
    "not_applicable": [],
    "notes": "Genuine defects of the pinned tree were repaired by `fix:` commits in /repo (listed in known_findings.txt); the one that cannot be repaired without breaking the repo's own tests (block-repeat T-states, C04) is a known finding.",
}
json.dump(m, open(V + "/MANIFEST.json", "w"), indent=1)
print("MANIFEST.json written:", sum(1 for c in checks if c["level_claimed"]["category"] == "proof"), "proof-level")
