#!/bin/bash
# usage: run_mutant.sh <dir with patch.diff or mutation.diff> <tier> <prop>... : apply the change to /repo, run checks, undo
d=$1; tier=$2; shift 2
patch=$d/patch.diff; [ -f $patch ] || patch=$d/mutation.diff
git -C /repo apply $patch || { echo "cannot apply"; exit 2; }
for p in "$@"; do
  out=$(cd /verif && ./check $p --tier $tier 2>&1); rc=$?
  nv=$(echo "$out" | grep -c "^VIOLATION")
  echo "  $p rc=$rc violations_printed=$nv $(echo "$out" | grep "^VIOLATION" | head -1)"
done
git -C /repo checkout -- .
