#!/usr/bin/env python3
"""matrix.py [seeded-name ...]: for each seeded change: apply to /repo, rebuild the harness once, run every property's
quick correspondence (harness binary directly; the proofs do not depend on /repo), undo; record caught_by_quick in meta.json."""
import json, os, subprocess, sys
V="/verif"; names=sys.argv[1:] or sorted(os.listdir(V+"/seeded"))
env=dict(os.environ, CARGO_NET_OFFLINE="true")
rows=[]
for n in names:
    d=V+"/seeded/"+n
    if not os.path.exists(d+"/patch.diff"): continue
    if subprocess.run(["git","-C","/repo","apply",d+"/patch.diff"]).returncode!=0:
        print(n,"patch does not apply"); continue
    try:
        caught=[]
        for prof,cmd,binp in (("checked",["cargo","build","--release","--offline"],"target/release/z80harness"),("wrap",["cargo","build","--profile","wrap","--offline"],"target/wrap/z80harness")):
            b=subprocess.run(cmd,cwd=V+"/harness",env=env,capture_output=True,text=True)
            if b.returncode!=0:
                caught.append("build:"+prof); continue
            for i in range(1,21):
                p="C%02d"%i
                if prof=="wrap" and p not in ("C06","C08"): continue
                r=subprocess.run([V+"/harness/"+binp,p,"--tier","quick","--seed","1","--replay-dir",V+"/work/matrix_replay","--tmp",V+"/work","--profile",prof],capture_output=True,text=True)
                if r.returncode!=0 and p not in caught: caught.append(p)
        meta=json.load(open(d+"/meta.json")); meta["caught_by_quick"]=sorted(caught); json.dump(meta,open(d+"/meta.json","w"),indent=1)
        rows.append((n,meta["property"],sorted(caught)))
        print(n, meta["property"], "caught by", sorted(caught), flush=True)
    finally:
        subprocess.run(["git","-C","/repo","checkout","--","."])
subprocess.run(["cargo","build","--release","--offline"],cwd=V+"/harness",env=env,capture_output=True)
subprocess.run(["cargo","build","--profile","wrap","--offline"],cwd=V+"/harness",env=env,capture_output=True)
