#!/bin/sh
# summarise /verif/work/explore.txt by (page, kind)
head -1 /verif/work/explore.txt
grep "^==" /verif/work/explore.txt | sed -E 's/ x[0-9]+$//' | awk '{k=$3" "$4" "$5; pg=substr($2,1,index($2,":")-1); c[pg" "k]++; ex[pg" "k]=ex[pg" "k]" "substr($2,index($2,":")+1)} END{for(x in c) print c[x], x, ":", ex[x]}' | sort -rn | head -${1:-60}
