#!/usr/bin/env python3
"""make_prompts.py <round-dir> [Cxx ...]: create a scratch worktree <round-dir>/Cxx of /repo and a self-contained prompt
<round-dir>/Cxx.prompt.txt for a seeded-change sub-agent.  The prompt contains only the property's text, the rules, and
one-line descriptions of the ideas earlier rounds already used for that property (so that the new one differs)."""
import json, os, re, subprocess, sys

V = "/verif"
root = sys.argv[1]
want = sys.argv[2:] or ["C%02d" % i for i in range(1, 21)]
props = {}
for l in open(V + "/properties.jsonl"):
    p = json.loads(l)
    props[p["id"]] = p

used = {}
for n in sorted(os.listdir(V + "/seeded")):
    m = V + "/seeded/" + n + "/meta.json"
    if os.path.exists(m):
        meta = json.load(open(m))
        t = meta["needs_to_manifest"]
        t = re.sub(r"\s*\([^()]*(missed|caught|added|before the first run)[^()]*\)", "", t)
        t = re.sub(r":\s*missed at first.*$", "", t)
        used.setdefault(meta["property"], []).append(t.strip())

TEMPLATE = """You are working in a scratch git worktree of the Rust crate nicolasbauw/ZilogZ80 (a Zilog Z80 CPU emulator library: src/cpu.rs interpreter, src/bus.rs memory bus, src/dasm.rs disassembler, src/cycles.rs timing tables, src/registers.rs, src/flags.rs). The worktree is at @WT@. Work ONLY inside @WT@. Do not read, list or touch /verif or /repo or any other directory under /tmp. There is no network; use `cargo ... --offline` and always set CARGO_TARGET_DIR=@WT@/target.

Here is a semantic property the library is supposed to satisfy:

@ID@ — @TITLE@

@STATEMENT@

It must hold over: @QUANT@

Your task: produce a realistic change (a "seeded defect") to the library source under @WT@/src (NOT to src/test.rs, not to Cargo.toml) that BREAKS this property while
  (a) the crate still compiles without errors, and
  (b) the existing test suite gives exactly the same results as before: run `cd @WT@ && CARGO_TARGET_DIR=@WT@/target cargo test --offline 2>&1 | tail -3` before and after; the baseline is "185 passed; 76 failed" (the 76 fail only because bin/*.bin files are missing) and the set of passing tests must not change.
The change must need something SPECIFIC to manifest — a particular multi-step sequence of operations, an unusual input or edge value, a particular alignment or address, a particular combination of machine state, or two cooperating sites that each look fine alone. It must NOT be something ordinary use would expose at once (e.g. do not break an instruction for all operands). Make it look like a plausible maintenance mistake or an over-eager refactor/optimisation, small (a few lines).

Also write a demonstration that uses only the crate's public API (zilog_z80::cpu::CPU, c.reg, c.alt, c.bus, c.execute(), c.execute_timed(), c.int_request(b), c.nmi_request(), c.dasm(addr), c.debug, bus read/write functions...): a Rust integration test file @WT@/tests/demo_mutation.rs (cargo picks it up with `cargo test --offline --test demo_mutation`) containing one or more #[test] functions that FAIL with your change applied and PASS on the unchanged source. Verify both yourself (use `git stash` / `git stash pop` or `git diff > x; git checkout src; ...; git apply x`).

IMPORTANT: earlier attempts already used the ideas below, so do something of a DIFFERENT kind (different site in the code, different mechanism, different trigger):
@USED@
@EXTRA@

Deliverables, all inside @WT@:
  1. @WT@/mutation.diff — output of `git diff -- src` for your change (src only).
  2. @WT@/tests/demo_mutation.rs — the demonstration.
  3. @WT@/NOTES.md — what the change is, why it breaks the property, exactly what is needed for it to manifest, and the commands + observed results (suite before/after, demo with/without).
Leave the change applied in the worktree's src when you finish. Do not commit anything. In your final answer, summarise the change in 3-5 lines.
"""

EXTRA = ("Prefer a data-dependent trigger over hidden state this time: a particular VALUE relation (two registers equal, an operand "
         "equal to part of an address, a count that is a multiple of 256, a value whose nibbles or bits have some pattern, a carry "
         "chain of a particular length), or an interaction between two DIFFERENT features of the library that are rarely used "
         "together. It should still be something a real program could hit.")

if os.environ.get("MUT_THEME_FILE"):
    EXTRA = open(os.environ["MUT_THEME_FILE"]).read().strip()

os.makedirs(root, exist_ok=True)
for pid in want:
    p = props[pid]
    wt = root + "/" + pid
    if not os.path.exists(wt):
        subprocess.run(["git", "-C", "/repo", "worktree", "add", "-q", "--detach", wt, "HEAD"], check=True)
    quant = p.get("quantifier") or ""
    if isinstance(quant, dict):
        quant = quant.get("text", "")
    t = TEMPLATE
    for k, v in (("@WT@", wt), ("@ID@", pid), ("@TITLE@", p.get("title", "")), ("@STATEMENT@", p.get("statement", "")),
                 ("@QUANT@", quant), ("@USED@", "\n".join(" - " + u for u in used.get(pid, [])) or " - (none)"), ("@EXTRA@", EXTRA)):
        t = t.replace(k, v)
    open(root + "/" + pid + ".prompt.txt", "w").write(t)
    print("prepared", wt)
