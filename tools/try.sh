#!/bin/bash
# usage: try.sh <seeded-name> <Cxx>... : apply the seeded change, rebuild the harness, run the quick correspondence of the
# given properties (harness binary directly; the proofs do not depend on /repo), undo.  Prints which report it.
n=$1; shift
d=/verif/seeded/$n
git -C /repo apply $d/patch.diff || { echo "$n: patch does not apply"; exit 2; }
cd /verif/harness
export CARGO_NET_OFFLINE=true
cargo build --release --offline >/dev/null 2>&1 || echo "$n: build failed (checked)"
cargo build --profile wrap --offline >/dev/null 2>&1 || echo "$n: build failed (wrap)"
for p in "$@"; do
  for prof in checked wrap; do
    bin=target/release/z80harness; [ $prof = wrap ] && bin=target/wrap/z80harness
    [ $prof = wrap ] && [ $p != C06 ] && [ $p != C08 ] && continue
    out=$($bin $p --tier quick --seed ${SEED:-1} --replay-dir /verif/work/try_replay --tmp /verif/work --profile $prof 2>&1); rc=$?
    echo "$n $p/$prof rc=$rc $(echo "$out" | grep -c '^VIOLATION') violation lines; $(echo "$out" | grep '^VIOLATION' | head -1)"
  done
done
git -C /repo checkout -- .
cargo build --release --offline >/dev/null 2>&1; cargo build --profile wrap --offline >/dev/null 2>&1
