#!/usr/bin/env python3
"""One-off extractor: src/dasm.rs -> Z80/Model/DasmTable.lean (templates then owned by the model;
validated against the implementation by the correspondence check on every run)."""
import re, sys
src = open('/repo/src/dasm.rs').read()
body = src[src.index('let instr = match opcode {'):src.index('let instr_size = match opcode')]
# split into arms "0xNN => ..." at 12-space indentation
arms = re.split(r'\n {12}(?=0x[0-9A-F]{2} =>)', body)
tmpl = {}
def lean_str(s): return '"' + s.replace('\\', '\\\\').replace('"', '\\"') + '"'
for arm in arms[1:]:
    op = int(arm[2:4], 16)
    if op == 0xCB: continue
    m = re.search(r'String::from\("([^"]*)"\)', arm)
    if m:
        fmt, args = m.group(1), []
    else:
        m = re.search(r'format!\(\s*"([^"]*)"\s*,(.*?)\)\s*\n', arm, re.S)
        assert m, arm
        fmt = m.group(1); args = [a.strip() for a in m.group(2).split(',') if a.strip()]
    lets = dict()
    for lm in re.finditer(r'let (\w+) = (.*?);', arm, re.S):
        lets[lm.group(1)] = ' '.join(lm.group(2).split())
    def piece(var, spec):
        e = lets[var]
        if e == 'self.bus.read_byte(address + 1)': p = 'b1'
        elif e == 'self.bus.read_byte(address + 2)': p = 'b2'
        elif e == 'self.bus.read_word(address + 1)': p = 'w1'
        elif e == 'self.reg.get_hl()': p = 'pair .hl'
        elif e == 'self.reg.get_bc()': p = 'pair .bc'
        elif e == 'self.reg.get_de()': p = 'pair .de'
        elif e.startswith('match bit::get(displacement, 7)'): p = 'rel'
        else: raise Exception((hex(op), var, e))
        want = {'b1': '02', 'b2': '02', 'w1': '04', 'rel': '04'}.get(p, '04')
        assert spec == want, (hex(op), var, spec, p)
        return '.' + p
    parts = re.split(r'\{:(\d\d)X\}', fmt)
    pieces = []
    ai = 0
    for k, part in enumerate(parts):
        if k % 2 == 0:
            t = re.sub(r' +', ' ', part)
            if t: pieces.append('.lit ' + lean_str(t))
        else:
            pieces.append(piece(args[ai], part)); ai += 1
    assert ai == len(args)
    tmpl[op] = pieces
cb = re.search(r'pub const DASM_CB: \[&str; 256\] = \[(.*?)\];', src, re.S).group(1)
cbs = re.findall(r'"([^"]*)"', cb); assert len(cbs) == 256
out = ['/-\n  Z80.Model.DasmTable — the per-opcode text templates of src/dasm.rs (extracted once by\n  tools/gen_dasm_table.py, whitespace runs collapsed; defects repaired, see known_findings.txt).\n  Import-free.\n-/\nimport Z80.Model.Instr\nnamespace Z80\n',
 'inductive Piece\n  | lit (s : String)\n  | b1 | b2        -- operand byte at address+1 / address+2, two hex digits\n  | w1             -- word at address+1, four hex digits\n  | pair (r : R16) -- current value of a register pair, four hex digits\n  | rel            -- relative-jump target computed from the byte at address+1\nderiving DecidableEq, Repr, Inhabited\n',
 'def dasmBase : Array (List Piece) := #[']
rows = []
for op in range(256):
    rows.append('  /- %02X -/ [%s]' % (op, ', '.join(tmpl.get(op, []))))
out.append(',\n'.join(rows) + ']\n')
out.append('def dasmCB : Array String := #[\n' + ',\n'.join('  ' + ', '.join(lean_str(s) for s in cbs[i:i+8]) for i in range(0, 256, 8)) + ']\n')
out.append('end Z80\n')
open('/verif/lean/Z80/Model/DasmTable.lean', 'w').write('\n'.join(out))
print(len(tmpl), 'templates')
