/-
  z80drv — line-protocol driver around the executable model (Z80.Model.*).
  One request per line on stdin, exactly one reply line per request on stdout.
  See DESIGN.md Appendix B for the protocol.
-/
import Z80.Model.Step
import Z80.Model.Dasm
import Z80.Spec.Timing
import Z80.Spec.Undocumented
open Z80

/-! ### parsing / printing helpers -/

def hexVal (c : Char) : Option Nat :=
  if '0' ≤ c ∧ c ≤ '9' then some (c.toNat - 48)
  else if 'A' ≤ c ∧ c ≤ 'F' then some (c.toNat - 55)
  else if 'a' ≤ c ∧ c ≤ 'f' then some (c.toNat - 87)
  else none

def parseHex (s : String) : Option Nat :=
  if s.isEmpty then none else
  s.foldl (fun acc c => match acc, hexVal c with
    | some n, some d => some (n * 16 + d)
    | _, _ => none) (some 0)

def hexN (digits : Nat) (n : Nat) : String :=
  let rec go (k : Nat) (n : Nat) (acc : List Char) : List Char :=
    match k with
    | 0 => acc
    | k + 1 => go k (n / 16) (hexDigit (UInt8.ofNat (n % 16)) :: acc)
  String.ofList (go digits n [])

def b01 (b : Bool) : String := if b then "1" else "0"

/-- the shared fill function: byte at address `a` of the image with seed `seed` (0 = zeros). -/
def fillByte (seed : UInt32) (a : UInt32) : UInt8 :=
  if seed == 0 then 0 else
  let x := seed ^^^ (a * 0x9E3779B1)
  let x := x ^^^ (x <<< 13)
  let x := x ^^^ (x >>> 17)
  let x := x ^^^ (x <<< 5)
  let x := x * 0x85EBCA6B
  (x >>> 16).toUInt8

def mkImage (seed : UInt32) (len : Nat) : Array UInt8 :=
  if seed == 0 then Array.replicate len 0 else
  Array.ofFn (n := len) fun i => fillByte seed (UInt32.ofNat i.val)

/-! ### state <-> text -/

def regsText (r : Regs) : String :=
  hex2 r.a ++ hex2 r.flags.toByte ++ hex2 r.b ++ hex2 r.c ++ hex2 r.d ++ hex2 r.e ++ hex2 r.h ++ hex2 r.l ++
  hex2 r.ixh ++ hex2 r.ixl ++ hex2 r.iyh ++ hex2 r.iyl ++ hex2 r.i ++ hex2 r.r ++ " " ++ hex4 r.sp ++ " " ++ hex4 r.pc

def altText (r : Regs) : String :=
  hex2 r.a ++ hex2 r.flags.toByte ++ hex2 r.b ++ hex2 r.c ++ hex2 r.d ++ hex2 r.e ++ hex2 r.h ++ hex2 r.l

def ctlText (a : Arch) : String :=
  b01 a.halt ++ " " ++ (match a.int with | none => "--" | some b => hex2 b) ++ " " ++ b01 a.nmi ++ " " ++
  hex2 a.im ++ " " ++ b01 a.iff1 ++ " " ++ b01 a.iff2

def strText (s : String) : String :=
  if s.isEmpty then "-" else String.join (s.toList.map fun c => hex2 (UInt8.ofNat c.toNat))

def byteAt (s : String) (i : Nat) : Option UInt8 :=
  (parseHex ((s.drop (2 * i)).take 2).toString).map UInt8.ofNat

def parseRegs (main sp pc : String) : Option Regs := do
  if main.length != 28 then none
  let g := fun i => byteAt main i
  let spv ← parseHex sp
  let pcv ← parseHex pc
  some { a := ← g 0, flags := Flags.ofByte (← g 1), b := ← g 2, c := ← g 3, d := ← g 4, e := ← g 5,
         h := ← g 6, l := ← g 7, ixh := ← g 8, ixl := ← g 9, iyh := ← g 10, iyl := ← g 11,
         i := ← g 12, r := ← g 13, sp := UInt16.ofNat spv, pc := UInt16.ofNat pcv }

def parseAlt (s : String) : Option Regs := do
  if s.length != 16 then none
  let g := fun i => byteAt s i
  some { a := ← g 0, flags := Flags.ofByte (← g 1), b := ← g 2, c := ← g 3, d := ← g 4, e := ← g 5,
         h := ← g 6, l := ← g 7 }

def parseBit (s : String) : Option Bool :=
  if s == "1" then some true else if s == "0" then some false else none

structure Ctl where
  halt : Bool
  int : Option UInt8
  nmi : Bool
  im : UInt8
  iff1 : Bool
  iff2 : Bool

def parseCtl (halt int nmi im iff1 iff2 : String) : Option Ctl := do
  let i ← if int == "--" then some none else (parseHex int).map (fun n => some (UInt8.ofNat n))
  some { halt := ← parseBit halt, int := i, nmi := ← parseBit nmi, im := UInt8.ofNat (← parseHex im),
         iff1 := ← parseBit iff1, iff2 := ← parseBit iff2 }

/-! ### driver state -/

structure DState where
  cpu : Cpu
  base : Array UInt8          -- image at the last `S`
  cacheSeed : UInt32 := 0
  cacheLen : Nat := 0
  cache : Array UInt8 := #[]

def replyState (c : Cpu) (cyc : UInt32) : String :=
  "R " ++ regsText c.arch.reg ++ " " ++ altText c.arch.alt ++ " " ++ ctlText c.arch ++ " " ++
  toString cyc.toNat ++ " " ++ strText c.debug.str

def memDelta (base cur : Array UInt8) : String := Id.run do
  let mut out : String := ""
  let mut n : Nat := 0
  for i in [0:cur.size] do
    let v := cur[i]!
    if v != base.getD i 0 then
      out := out ++ " " ++ hexN 4 i ++ ":" ++ hex2 v
      n := n + 1
  return "D " ++ toString n ++ out

def parseOverrides (toks : List String) (mem : Array UInt8) : Option (Array UInt8) :=
  toks.foldlM (fun m t =>
    match t.splitOn ":" with
    | [a, b] => do
      let av ← parseHex a
      let bv ← parseHex b
      some (m.setIfInBounds av (UInt8.ofNat bv))
    | _ => none) mem

def cmdS (st : DState) (t : List String) : Option DState :=
  match t with
  | main :: sp :: pc :: alt :: halt :: int :: nmi :: im :: iff1 :: iff2 :: dbg :: sdur :: smax :: scur ::
    top :: rom :: seed :: _k :: ovr => do
    let reg ← parseRegs main sp pc
    let altr ← parseAlt alt
    let ctl ← parseCtl halt int nmi im iff1 iff2
    let dl := dbg.toList
    if dl.length != 4 && dl.length != 5 then none
    let bit := fun (i : Nat) => dl.getD i '0' == '1'
    let topv ← parseHex top
    let seedv := UInt32.ofNat (← parseHex seed)
    let len := topv + 1
    let romv ← if rom == "-" then some none else
      match rom.splitOn ":" with
      | [s, e] => do some (some (UInt16.ofNat (← parseHex s), UInt16.ofNat (← parseHex e)))
      | _ => none
    let sdurv := UInt32.ofNat (← parseHex sdur)
    let smaxv := UInt32.ofNat (← parseHex smax)
    let scurv := UInt32.ofNat (← parseHex scur)
    let (img, st) :=
      if st.cacheSeed == seedv && st.cacheLen == len && st.cache.size == len then (st.cache, st)
      else let im := mkImage seedv len; (im, { st with cacheSeed := seedv, cacheLen := len, cache := im })
    let mem ← parseOverrides ovr img
    let cpu : Cpu :=
      { arch := { reg := reg, alt := altr, bus := { mem := mem, rom := romv }, halt := ctl.halt, int := ctl.int,
                  nmi := ctl.nmi, im := ctl.im, iff1 := ctl.iff1, iff2 := ctl.iff2 },
        debug := { unknw := bit 0, opcode := bit 1, io := bit 2, instrIn := bit 3,
                   str := if bit 4 then "0xSTALE" else "" },   -- 5th flag: a stale diagnostic text is present
        slice := { duration := sdurv, max := smaxv, cur := scurv } }
    some { st with cpu := cpu, base := mem }
  | _ => none

def cmdP (st : DState) (t : List String) : Option DState :=
  match t with
  | [main, sp, pc, alt, halt, int, nmi, im, iff1, iff2] => do
    let reg ← parseRegs main sp pc
    let altr ← parseAlt alt
    let ctl ← parseCtl halt int nmi im iff1 iff2
    let a : Arch :=
      { reg := reg, alt := altr, bus := st.cpu.arch.bus, halt := ctl.halt, int := ctl.int,
        nmi := ctl.nmi, im := ctl.im, iff1 := ctl.iff1, iff2 := ctl.iff2 }
    some { st with cpu := { st.cpu with arch := a } }
  | _ => none

/-! ### exhaustive sweeps, folded to one hash per request -/

@[inline] def mix (h : UInt64) (v : UInt64) : UInt64 := (h ^^^ v) * 0x100000001B3

def sweepArch : Arch := { bus := { mem := Array.replicate 16 0 } }

/-- run `i` on registers (A, F, B, (HL)=mem[8]) and hash the observables under `mask`. -/
@[inline] def sweepCase (i : Instr) (mask : UInt8) (a f b m : UInt8) (h : UInt64) : UInt64 :=
  let ar : Arch := { sweepArch with reg := { a := a, flags := Flags.ofByte f, b := b, h := 0, l := 8 },
                                    bus := { mem := sweepArch.bus.mem.setIfInBounds 8 m } }
  let r := exec i 2 ar
  mix (mix (mix (mix h r.reg.a.toUInt64) (r.reg.flags.toByte &&& mask).toUInt64) r.reg.b.toUInt64)
    (r.bus.readByte 8).toUInt64

/-- kinds: `an` vary A (block), n, F with `alu op (imm n)`; `af`: vary A, F; `bf`: vary B, F;
    `amf`: vary A (block), m, F. -/
def sweep (kind : String) (i : UInt8 → Instr) (mask : UInt8) (block : UInt8) : UInt64 := Id.run do
  let mut h : UInt64 := 0xcbf29ce484222325
  if kind == "an" then
    for n in [0:256] do
      for f in [0:256] do
        h := sweepCase (i (UInt8.ofNat n)) mask block (UInt8.ofNat f) 0 0 h
  else if kind == "amf" then
    for m in [0:256] do
      for f in [0:256] do
        h := sweepCase (i 0) mask block (UInt8.ofNat f) 0 (UInt8.ofNat m) h
  else if kind == "af" then
    for a in [0:256] do
      for f in [0:256] do
        h := sweepCase (i 0) mask (UInt8.ofNat a) (UInt8.ofNat f) 0 0 h
  else
    for b in [0:256] do
      for f in [0:256] do
        h := sweepCase (i 0) mask 0 (UInt8.ofNat f) (UInt8.ofNat b) 0 h
  return h

/-- 16-bit cores: HL = hh:lo, DE = dd:lo2 for all hh, dd and the boundary low bytes, both carries. -/
def sweep16 (i : Instr) (block : UInt8) : UInt64 := Id.run do
  let lows : Array UInt8 := #[0x00, 0x01, 0x7F, 0x80, 0xFF]
  let mut h : UInt64 := 0xcbf29ce484222325
  for dd in [0:256] do
    for l1 in lows do
      for l2 in lows do
        for c in [0:2] do
          let ar : Arch := { sweepArch with reg := { h := block, l := l1, d := UInt8.ofNat dd, e := l2,
                                                       flags := Flags.ofByte (if c == 1 then 0xFF else 0x00) } }
          let r := exec i 2 ar
          h := mix (mix (mix h r.reg.h.toUInt64) r.reg.l.toUInt64) (r.reg.flags.toByte &&& 0xD7).toUInt64
  return h

/-- 16-bit cores, exhaustive: HL = hh:ll, every DE, both carries (2^17 cases). -/
def sweep16xl (i : Instr) (hh ll : UInt8) (h0 : UInt64) : UInt64 := Id.run do
  let mut h : UInt64 := h0
  for de in [0:65536] do
    for c in [0:2] do
      let ar : Arch := { sweepArch with reg := { h := hh, l := ll, d := UInt8.ofNat (de / 256), e := UInt8.ofNat (de % 256),
                                                   flags := Flags.ofByte (if c == 1 then 0xFF else 0x00) } }
      let r := exec i 2 ar
      h := mix (mix (mix h r.reg.h.toUInt64) r.reg.l.toUInt64) (r.reg.flags.toByte &&& 0xD7).toUInt64
  return h

/-- every L for one H: 2^25 cases -/
def sweep16x (i : Instr) (hh : UInt8) : UInt64 := Id.run do
  let mut h : UInt64 := 0xcbf29ce484222325
  for ll in [0:256] do
    h := sweep16xl i hh (UInt8.ofNat ll) h
  return h

def sweep16Instr (name : String) : Option Instr :=
  match name with
  | "add16" => some (.add16 .hl .de) | "adc16" => some (.adc16 .de) | "sbc16" => some (.sbc16 .de) | _ => none

def cmdSweepX (t : List String) : String :=
  match t with
  | [name, hh] =>
    match sweep16Instr name, parseHex hh with
    | some i, some b => "H " ++ hexN 16 (sweep16x i (UInt8.ofNat b)).toNat
    | _, _ => "bad-op"
  | [name, hh, ll] =>
    match sweep16Instr name, parseHex hh, parseHex ll with
    | some i, some b, some l => "H " ++ hexN 16 (sweep16xl i (UInt8.ofNat b) (UInt8.ofNat l) 0xcbf29ce484222325).toNat
    | _, _, _ => "bad-op"
  | _ => "bad-op"

def sweepInstr (name : String) : Option (String × (UInt8 → Instr) × UInt8) :=
  let alu : AluOp → Option (String × (UInt8 → Instr) × UInt8) :=
    fun op => some ("an", fun n => Instr.alu op (.imm n), 0xD7)
  let accI : Instr → Option (String × (UInt8 → Instr) × UInt8) := fun i => some ("af", fun _ => i, 0xD7)
  let rotB : RotOp → Option (String × (UInt8 → Instr) × UInt8) :=
    fun op => some ("bf", fun _ => Instr.rot op (.reg .b), 0xD7)
  match name with
  | "add" => alu .add | "adc" => alu .adc | "sub" => alu .sub | "sbc" => alu .sbc
  | "and" => alu .and | "xor" => alu .xor | "or" => alu .or | "cp" => alu .cp
  | "daa" => accI .daa | "cpl" => accI .cpl | "neg" => accI .neg | "ccf" => accI .ccf | "scf" => accI .scf
  | "rlca" => accI .rlca | "rla" => accI .rla | "rrca" => accI .rrca | "rra" => accI .rra
  | "inc" => some ("bf", fun _ => .inc8 (.reg .b), 0xD7) | "dec" => some ("bf", fun _ => .dec8 (.reg .b), 0xD7)
  | "incm" => some ("amf", fun _ => .inc8 (.mem .hl), 0xD7) | "decm" => some ("amf", fun _ => .dec8 (.mem .hl), 0xD7)
  | "rlc" => rotB .rlc | "rrc" => rotB .rrc | "rl" => rotB .rl | "rr" => rotB .rr
  | "sla" => rotB .sla | "sra" => rotB .sra | "sll" => rotB .sll | "srl" => rotB .srl
  | "rld" => some ("amf", fun _ => .rld, 0xD7) | "rrd" => some ("amf", fun _ => .rrd, 0xD7)
  | "bit0" => some ("bf", fun _ => .bit 0 (.reg .b), 0x53) | "bit1" => some ("bf", fun _ => .bit 1 (.reg .b), 0x53)
  | "bit2" => some ("bf", fun _ => .bit 2 (.reg .b), 0x53) | "bit3" => some ("bf", fun _ => .bit 3 (.reg .b), 0x53)
  | "bit4" => some ("bf", fun _ => .bit 4 (.reg .b), 0x53) | "bit5" => some ("bf", fun _ => .bit 5 (.reg .b), 0x53)
  | "bit6" => some ("bf", fun _ => .bit 6 (.reg .b), 0x53) | "bit7" => some ("bf", fun _ => .bit 7 (.reg .b), 0x53)
  | _ => none

def cmdSweep (t : List String) : String :=
  match t with
  | [name, blk] =>
    match parseHex blk with
    | none => "bad-op"
    | some b =>
      let b8 := UInt8.ofNat b
      match name with
      | "add16" => "H " ++ hexN 16 (sweep16 (.add16 .hl .de) b8).toNat
      | "adc16" => "H " ++ hexN 16 (sweep16 (.adc16 .de) b8).toNat
      | "sbc16" => "H " ++ hexN 16 (sweep16 (.sbc16 .de) b8).toNat
      | _ =>
        match sweepInstr name with
        | some (kind, i, mask) => "H " ++ hexN 16 (sweep kind i mask b8).toNat
        | none => "bad-op"
  | _ => "bad-op"

/-! ### register sweeps: one instruction for every value of one 16-bit register, chained memory -/

def setWhich (r : Regs) (which : Nat) (v : UInt16) : Regs :=
  match which with
  | 0 => r.setBC v | 1 => r.setDE v | 2 => r.setHL v | 3 => r.setIX v | 4 => r.setIY v
  | 5 => { r with sp := v } | 6 => { r with pc := v } | 8 => { r with i := hiByte v, r := loByte v } | _ => r.setAF v

def b2u (b : Bool) : UInt64 := if b then 1 else 0

/-- For each value `v` of the block: registers, alternate registers and control state as installed, register
    `which` := v, the four code bytes at the installed PC restored (raw, unless PC itself is swept), one step.
    Memory is carried from one iteration to the next.  Hashes: registers without F/PC/R (+ final memory),
    F under 0xD7, PC+SP, T-states, Zilog T-states where documented, control state. -/
def sweepReg (c0 : Cpu) (which blk nblk : Nat) (fmask : UInt8) (link : Nat := 99) (delta : UInt16 := 0) : String := Id.run do
  let per := 65536 / nblk
  let a0 := c0.arch
  let pc0 := a0.reg.pc
  let c0b := a0.bus.readByte pc0
  let c1b := a0.bus.readByte (pc0 + 1)
  let c2b := a0.bus.readByte (pc0 + 2)
  let c3b := a0.bus.readByte (pc0 + 3)
  let mut bus := a0.bus
  let mut h1 : UInt64 := 0xcbf29ce484222325
  let mut hf : UInt64 := 0xcbf29ce484222325
  let mut h3 : UInt64 := 0xcbf29ce484222325
  let mut h4 : UInt64 := 0xcbf29ce484222325
  let mut hz : UInt64 := 0xcbf29ce484222325
  let mut h5 : UInt64 := 0xcbf29ce484222325
  let mut alldoc := true
  let mut alldocF := true
  let mut anyIo := false
  for k in [0:per] do
    let v := UInt16.ofNat (blk * per + k)
    -- the memory array is threaded linearly: `bus` is emptied while the step owns the array
    let mem0 := bus.mem
    let rom0 := bus.rom
    bus := { mem := #[], rom := none }
    let mem1 :=
      if which == 6 then mem0
      else (((mem0.setIfInBounds pc0.toNat c0b).setIfInBounds (pc0 + 1).toNat c1b).setIfInBounds
              (pc0 + 2).toNat c2b).setIfInBounds (pc0 + 3).toNat c3b
    let a : Arch := { reg := (if link < 8 then setWhich (setWhich a0.reg which v) link (v + delta) else setWhich a0.reg which v), alt := a0.alt, bus := { mem := mem1, rom := rom0 }, halt := a0.halt,
                      int := a0.int, nmi := a0.nmi, im := a0.im, iff1 := a0.iff1, iff2 := a0.iff2 }
    let wk := a.wakes
    let (a', cyc, info) := stepArch a
    let r := a'.reg
    let t := a'.alt
    h1 := mix (mix (mix (mix (mix (mix (mix h1 r.a.toUInt64) r.b.toUInt64) r.c.toUInt64) r.d.toUInt64) r.e.toUInt64) r.h.toUInt64) r.l.toUInt64
    h1 := mix (mix (mix (mix (mix (mix h1 r.ixh.toUInt64) r.ixl.toUInt64) r.iyh.toUInt64) r.iyl.toUInt64) r.i.toUInt64) r.sp.toUInt64
    h1 := mix (mix (mix (mix (mix (mix (mix (mix h1 t.a.toUInt64) t.flags.toByte.toUInt64) t.b.toUInt64) t.c.toUInt64) t.d.toUInt64) t.e.toUInt64) t.h.toUInt64) t.l.toUInt64
    hf := mix hf (r.flags.toByte &&& fmask).toUInt64
    h3 := mix (mix h3 r.pc.toUInt64) r.sp.toUInt64
    h4 := mix h4 cyc.toUInt64
    let isdoc : Bool :=
      match info with
      | none => true
      | some i => !wk && Spec.documented i.page i.d.op && !Spec.io i.page i.d.op && !Spec.isBlockRepeat i.d.instr
    let z : UInt64 :=
      match info with
      | none => 4
      | some i =>
        match isdoc, Spec.timing i.page i.d.instr i.tk with
        | true, some n => UInt64.ofNat n
        | _, _ => cyc.toUInt64
    alldoc := alldoc && isdoc
    anyIo := anyIo || (match info with | none => false | some i => i.unknown)
    alldocF := alldocF && (match info with
      | none => true
      | some i => !wk && Spec.documented i.page i.d.op && !Spec.io i.page i.d.op)
    hz := mix hz z
    h5 := mix (mix (mix (mix (mix (mix h5 (b2u a'.halt)) (b2u a'.iff1)) (b2u a'.iff2)) a'.im.toUInt64)
            (match a'.int with | none => 0x100 | some b => b.toUInt64)) (b2u a'.nmi)
    bus := a'.bus
  let ck := bus.mem.foldl (fun h b => mix h b.toUInt64) (0xcbf29ce484222325 : UInt64)
  return "H " ++ hexN 16 (mix h1 ck).toNat ++ " " ++ hexN 16 hf.toNat ++ " " ++ hexN 16 h3.toNat ++ " " ++
    hexN 16 h4.toNat ++ " " ++ hexN 16 hz.toNat ++ " " ++ hexN 16 h5.toNat ++ " doc=" ++ (if alldoc then "1" else "0") ++ " fdoc=" ++ (if alldocF then "1" else "0") ++ " io=" ++ (if anyIo then "1" else "0")

/-! ### request dispatcher -/

def h16 (s : String) : Option UInt16 := (parseHex s).map UInt16.ofNat

def handle (st : DState) (line : String) : DState × String :=
  let toks := (line.trimAscii.toString.splitOn " ").filter (· ≠ "")
  let bad := (st, "bad-op")
  let bus := st.cpu.arch.bus
  let withBus := fun (b : Bus) => { st with cpu := { st.cpu with arch := { st.cpu.arch with bus := b } } }
  match toks with
  | "S" :: rest => match cmdS st rest with | some s => (s, "ok") | none => bad
  | "SN" :: rest => match cmdS st rest with | some s => (s, "ok") | none => bad
  | "P" :: rest => match cmdP st rest with | some s => (s, "ok") | none => bad
  | ["X"] =>
    let pre := st.cpu.arch
    let (c, cyc) := step st.cpu
    let info := (stepArch pre).2.2
    let extra :=
      match info with
      | none => " doc=1 io=0 zt=4 cls=x"                         -- halted idle step
      | some i =>
        let doc := !pre.wakes && Spec.documented i.page i.d.op && !Spec.io i.page i.d.op
        let zt : Option Nat :=
          if Spec.isBlockRepeat i.d.instr then
            let k := (pre.reg.getBC - c.arch.reg.getBC).toNat
            some (Spec.blockTiming (if k == 0 then 65536 else k))
          else Spec.timing i.page i.d.instr i.tk
        " doc=" ++ b01 doc ++ " io=" ++ b01 (Spec.io i.page i.d.op) ++ " zt=" ++
          (match zt with | some n => toString n | none => "-") ++
          " cls=" ++ (match i.d.instr with | .bit _ _ => "bit" | .unknown => "unk" | _ => "x") ++
          " row=" ++ (match i.page with | .base => "base" | .cb => "CB" | .ed => "ED" | .dd => "DD" | .fd => "FD"
                                         | .ddcb => "DDCB" | .fdcb => "FDCB") ++ ":" ++ hex2 i.d.op ++
          -- an undocumented ED encoding the tree reports as unknown: the state an implementation that executes it
          -- as the instruction it stands for would reach (registers, control state; T-states are not specified)
          (match i.unknown, i.page, Spec.undocED i.d.op with
           | true, .ed, some alt =>
             let a1 : Arch := { exec alt 2 (preDispatch pre) with int := none }
             " alt=" ++ ((replyState { st.cpu with arch := a1 } 0).replace " " "_")
           | _, _, _ => "")
    ({ st with cpu := c }, replyState c cyc ++ extra)
  | ["SP16", w, v] => match parseHex w, h16 v with
    | some w, some v =>
      let r16 : R16 := match w with | 0 => .bc | 1 => .de | 2 => .hl | 3 => .ix | 4 => .iy | _ => .af
      let a := st.cpu.arch
      let a' := { a with reg := a.reg.set16 r16 v }
      let c := { st.cpu with arch := a' }
      ({ st with cpu := c }, replyState c 0 ++ " " ++ hex4 (a'.reg.get16 r16))
    | _, _ => bad
  | ["T", e] =>
    let el := if e == "-" then some none else (parseHex e).map (fun n => some (UInt32.ofNat n))
    match el with
    | none => bad
    | some el =>
      let (c, sl) := executeTimed st.cpu el
      let io := match (stepArch st.cpu.arch).2.2 with | none => false | some i => i.unknown
      ({ st with cpu := c }, replyState c 0 ++ " " ++ (match sl with | none => "-" | some v => hexN 8 v.toNat) ++
         " " ++ hexN 8 c.slice.cur.toNat ++ " io=" ++ b01 io)
  | ["D"] => (st, memDelta st.base st.cpu.arch.bus.mem)
  | ["I", b] => match parseHex b with
    | some n => ({ st with cpu := st.cpu.intRequest (UInt8.ofNat n) }, "ok") | none => bad
  | ["N"] => ({ st with cpu := st.cpu.nmiRequest }, "ok")
  | ["WB", a, v] => match h16 a, parseHex v with
    | some a, some v => (withBus (bus.writeByte a (UInt8.ofNat v)), "ok") | _, _ => bad
  | ["WW", a, v] => match h16 a, h16 v with
    | some a, some v => (withBus (bus.writeWord a v), "ok") | _, _ => bad
  | ["RB", a] => match h16 a with | some a => (st, "V " ++ hex2 (bus.readByte a)) | none => bad
  | ["RW", a] => match h16 a with | some a => (st, "V " ++ hex4 (bus.readWord a)) | none => bad
  | ["RLW", a] => match h16 a with | some a => (st, "V " ++ hex4 (bus.readLeWord a)) | none => bad
  | ["RLD", a] => match h16 a with | some a => (st, "V " ++ hexN 8 (bus.readLeDword a).toNat) | none => bad
  | ["ROM", s, e] => match h16 s, h16 e with
    | some s, some e => (withBus (bus.setRomspace s e), "ok") | _, _ => bad
  | ["SL", s, e] => match parseHex s, parseHex e with
    | some s, some e =>
      (st, match bus.readMemSlice s e with
           | some l => "V " ++ String.join (l.map hex2) | none => "PANIC")
    | _, _ => bad
  | ["CL", s, e] => match parseHex s, parseHex e with
    | some s, some e =>
      (match bus.clearMemSlice s e with | some b => (withBus b, "ok") | none => (st, "PANIC"))
    | _, _ => bad
  | ["LB", org, len, seed] => match h16 org, parseHex seed with
    | some org, some seed =>
      let file : Option (Option (List UInt8)) :=
        if len == "missing" then some none else
        (parseHex len).map fun n => some ((List.range n).map fun i => fillByte (UInt32.ofNat seed) (UInt32.ofNat i))
      match file with
      | none => bad
      | some file =>
        match bus.loadBin file org with
        | none => (st, "PANIC")
        | some (.error _) => (st, "ERR")
        | some (.ok (b, n)) => (withBus b, "V " ++ toString n)
    | _, _ => bad
  | ["DA", a] => match h16 a with
    | some a => let (txt, sz) := dasm st.cpu.arch a; (st, "A " ++ toString sz.toNat ++ " " ++ txt)
    | none => bad
  | "SW" :: rest => (st, cmdSweep rest)
  | "SWX" :: rest => (st, cmdSweepX rest)
  | ["SWR", w, b, n, fm, lk, dl] => match parseHex w, parseHex b, parseHex n, parseHex fm, parseHex lk, parseHex dl with
    | some w, some b, some n, some fm, some lk, some dl =>
      if n == 0 || 65536 % n != 0 || b ≥ n then bad else (st, sweepReg st.cpu w b n (UInt8.ofNat fm) lk (UInt16.ofNat dl))
    | _, _, _, _, _, _ => bad
  | ["SWR", w, b, n, fm] => match parseHex w, parseHex b, parseHex n, parseHex fm with
    | some w, some b, some n, some fm =>
      if n == 0 || 65536 % n != 0 || b ≥ n then bad else (st, sweepReg st.cpu w b n (UInt8.ofNat fm))
    | _, _, _, _ => bad
  | ["SF", n8] => match parseHex n8 with
    | some n => let c := st.cpu.setFreqEighths (UInt32.ofNat n); ({ st with cpu := c }, "V " ++ toString c.slice.max.toNat)
    | none => bad
  | ["SFB", bits] => match parseHex bits with
    | some n => let c := st.cpu.setFreqBits (UInt32.ofNat n); ({ st with cpu := c }, "V " ++ toString c.slice.max.toNat)
    | none => bad
  | ["NAP", _] => (st, "ok")
  | ["SD", d] => match parseHex d with
    | some d => ({ st with cpu := st.cpu.setSliceDuration (UInt32.ofNat d) }, "ok") | none => bad
  | _ => bad

partial def loop (hin : IO.FS.Stream) (hout : IO.FS.Stream) (st : DState) : IO Unit := do
  let line ← hin.getLine
  if line.isEmpty then return ()
  let (st', out) := handle st line
  hout.putStrLn out
  loop hin hout st'

def main : IO Unit := do
  let hin ← IO.getStdin
  let hout ← IO.getStdout
  loop hin hout { cpu := Cpu.new 0xFFFF, base := #[] }
  hout.flush
