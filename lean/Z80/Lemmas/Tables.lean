/-
  Z80.Lemmas.Tables — facts about the decoder and the interpreter's tables, checked row by row
  by kernel evaluation over all 256 rows of each page, with the operand bytes left symbolic.
-/
import Z80.Model.Dasm
import Z80.Spec.Timing
import Z80.Lemmas.Enum
namespace Z80

def isUnknown : Instr → Bool | .unknown => true | _ => false

theorem isUnknown_iff (i : Instr) : isUnknown i = true ↔ i = .unknown := by
  cases i <;> simp [isUnknown]

/-- turn a checked table (`allBelow 256`) into a statement about every opcode byte -/
theorem row_of_table {p : UInt8 → Bool} (h : allBelow 256 (fun i => p (UInt8.ofNat i)) = true) (op : UInt8) :
    p op = true := by
  have := allBelow_sound h op.toNat op.toNat_lt
  simpa using this

/-! ### every documented instruction other than the I/O group is in the executed set -/

def docNonIo (page : Page) (op : UInt8) : Bool := Spec.documented page op && !Spec.io page op

set_option maxRecDepth 100000 in
theorem doc_impl_base (b1 b2 : UInt8) :
    allBelow 256 (fun i => !docNonIo .base (UInt8.ofNat i) || !isUnknown (decodeBase (UInt8.ofNat i) b1 b2).1) = true := rfl

set_option maxRecDepth 100000 in
theorem doc_impl_cb : allBelow 256 (fun i => !isUnknown (decodeCB (UInt8.ofNat i)).1) = true := rfl

set_option maxRecDepth 100000 in
theorem doc_impl_ed (b2 b3 : UInt8) :
    allBelow 256 (fun i => !docNonIo .ed (UInt8.ofNat i) || !isUnknown (decodeED (UInt8.ofNat i) b2 b3).1) = true := rfl

set_option maxRecDepth 100000 in
theorem doc_impl_idx (x : Idx) (b2 b3 : UInt8) :
    allBelow 256 (fun i => !docNonIo .dd (UInt8.ofNat i) || !isUnknown (decodeIdx x (UInt8.ofNat i) b2 b3).1) = true := by
  cases x <;> rfl

set_option maxRecDepth 100000 in
theorem doc_impl_idxcb (x : Idx) (d : UInt8) :
    allBelow 256 (fun i => !docNonIo .ddcb (UInt8.ofNat i) || !isUnknown (decodeIdxCB x d (UInt8.ofNat i)).1) = true := by
  cases x <;> rfl

/-! ### the interpreter's T-state tables agree with Zilog's figures on every documented row -/

/-- what `instrCycles` adds up for a row (the unknown sentinel aside) -/
def rowCycles (page : Page) (op : UInt8) (i : Instr) (tk : Bool) : Nat :=
  (tableCycles ⟨i, 0, page, op⟩ + extraCycles i tk).toNat

def timingRowOk (page : Page) (op : UInt8) (i : Instr) : Bool :=
  !docNonIo page op || Spec.isBlockRepeat i ||
    (Spec.timing page i true == some (rowCycles page op i true) && Spec.timing page i false == some (rowCycles page op i false))

set_option maxRecDepth 100000 in
theorem timing_base (b1 b2 : UInt8) :
    allBelow 256 (fun i => timingRowOk .base (UInt8.ofNat i) (decodeBase (UInt8.ofNat i) b1 b2).1) = true := rfl

set_option maxRecDepth 100000 in
theorem timing_cb : allBelow 256 (fun i => timingRowOk .cb (UInt8.ofNat i) (decodeCB (UInt8.ofNat i)).1) = true := rfl

set_option maxRecDepth 100000 in
theorem timing_ed (b2 b3 : UInt8) :
    allBelow 256 (fun i => timingRowOk .ed (UInt8.ofNat i) (decodeED (UInt8.ofNat i) b2 b3).1) = true := rfl

set_option maxRecDepth 100000 in
theorem timing_idx (x : Idx) (b2 b3 : UInt8) :
    allBelow 256 (fun i => timingRowOk (match x with | .ix => .dd | .iy => .fd) (UInt8.ofNat i)
      (decodeIdx x (UInt8.ofNat i) b2 b3).1) = true := by
  cases x <;> rfl

set_option maxRecDepth 100000 in
theorem timing_idxcb (x : Idx) (d : UInt8) :
    allBelow 256 (fun i => timingRowOk (match x with | .ix => .ddcb | .iy => .fdcb) (UInt8.ofNat i)
      (decodeIdxCB x d (UInt8.ofNat i)).1) = true := by
  cases x <;> rfl

/-- no table entry plus conditional increment reaches the sentinel 255 -/
theorem tables_small :
    (cyclesBase.all (· ≤ 23) && cyclesCB.all (· ≤ 23) && cyclesED.all (· ≤ 23) && cyclesIdx.all (· ≤ 23)) = true := by
  decide +kernel

/-! ### the disassembler's size column equals the decoder's length -/

set_option maxRecDepth 100000 in
theorem dasm_size_base (b1 b2 : UInt8) :
    allBelow 256 (fun i => (dasmBase.getD i []).isEmpty ||
      (dasmSize (UInt8.ofNat i)).toUInt16 == (decodeBase (UInt8.ofNat i) b1 b2).2) = true := rfl

set_option maxRecDepth 100000 in
theorem dasm_size_cb : allBelow 256 (fun i => (decodeCB (UInt8.ofNat i)).2 == 2) = true := rfl

end Z80
