/-
  Z80.Lemmas.Frame — what an instruction leaves alone: registers outside its footprint, memory
  outside the addresses it is specified to write.
-/
import Z80.Spec.Footprint
import Z80.Lemmas.Bus
import Z80.Lemmas.Block
import Z80.Lemmas.Rom
namespace Z80
open Spec

theorem getReg_write8_other (x : Arch) (l : Loc8) (v : UInt8) (r : RegName) (h : r ∉ ofLoc l) :
    getReg (x.write8 l v) r = getReg x r := by
  cases l with
  | mem m => rfl
  | reg q => cases q <;> cases r <;> simp [ofLoc, ofR8] at h <;> rfl

theorem getReg_ldLoop (up : Bool) (n : Nat) (x : Arch) (r : RegName) (h : r ∉ [RegName.b, .c, .d, .e, .h, .l]) :
    getReg (ldLoop up n x) r = getReg x r := by
  induction n generalizing x with
  | zero => rfl
  | succ n ih =>
    have hs : getReg (ldStep up x) r = getReg x r := by cases r <;> simp at h <;> rfl
    rw [ldLoop]; split
    · exact hs
    · rw [ih, hs]

theorem getReg_cpLoop (up : Bool) (n : Nat) (x : Arch) (r : RegName) (h : r ∉ [RegName.b, .c, .h, .l]) :
    getReg (cpLoop up n x) r = getReg x r := by
  induction n generalizing x with
  | zero => rfl
  | succ n ih =>
    have hs : getReg (cpStep up x) r = getReg x r := by cases r <;> simp at h <;> rfl
    rw [cpLoop]; split
    · exact hs
    · rw [ih, hs]

@[simp] theorem getReg_setPC (x : Arch) (p : UInt16) (r : RegName) : getReg (x.setPC p) r = getReg x r := by cases r <;> rfl
@[simp] theorem getReg_setFlags (x : Arch) (f : Flags) (r : RegName) : getReg (x.setFlags f) r = getReg x r := by cases r <;> rfl

set_option maxHeartbeats 4000000 in
theorem frame_regs (i : Instr) (len : UInt16) (x : Arch) (r : RegName) (h : r ∉ regsWritten i) :
    getReg (exec i len x) r = getReg x r := by
  cases i <;> simp only [regsWritten] at h <;> simp only [exec, ldRepeat, cpRepeat]
  case ld8 dst src => rw [getReg_setPC, getReg_write8_other _ _ _ _ h]
  case inc8 l => rw [getReg_setPC, getReg_write8_other _ _ _ _ h, getReg_setFlags]
  case dec8 l => rw [getReg_setPC, getReg_write8_other _ _ _ _ h, getReg_setFlags]
  case rot op l => rw [getReg_setPC, getReg_write8_other _ _ _ _ h, getReg_setFlags]
  case set b l => rw [getReg_setPC, getReg_write8_other _ _ _ _ h]
  case res b l => rw [getReg_setPC, getReg_write8_other _ _ _ _ h]
  case ldir => rw [getReg_setPC, getReg_ldLoop _ _ _ _ h]
  case lddr => rw [getReg_setPC, getReg_ldLoop _ _ _ _ h]
  case cpir => rw [getReg_setPC, getReg_cpLoop _ _ _ _ h]
  case cpdr => rw [getReg_setPC, getReg_cpLoop _ _ _ _ h]
  case ld16 d nn => cases d <;> cases r <;> simp [ofR16] at h <;> rfl
  case ld16m d nn => cases d <;> cases r <;> simp [ofR16] at h <;> rfl
  case pop d => cases d <;> cases r <;> simp [ofR16] at h <;> rfl
  case exSP d => cases d <;> cases r <;> simp [ofR16] at h <;> rfl
  case add16 d s => cases d <;> cases r <;> simp [ofR16] at h <;> rfl
  case inc16 d => cases d <;> cases r <;> simp [ofR16] at h <;> rfl
  case dec16 d => cases d <;> cases r <;> simp [ofR16] at h <;> rfl
  case alu op src => cases op <;> cases r <;> simp at h <;> rfl
  all_goals first
    | rfl
    | (cases r <;> simp at h <;> rfl)
    | (split <;> first | rfl | (cases r <;> simp at h <;> rfl))

theorem addrOf_setFlags (x : Arch) (f : Flags) (m : MemRef) : (x.setFlags f).addrOf m = x.addrOf m := by
  cases m with
  | idx i d => cases i <;> rfl
  | _ => rfl

theorem write8_bus_other (x : Arch) (l : Loc8) (v : UInt8) (addr : UInt16)
    (h : ∀ m, l = .mem m → addr ≠ x.addrOf m) : (x.write8 l v).bus.readByte addr = x.bus.readByte addr := by
  cases l with
  | reg r => rfl
  | mem m => exact Bus.readByte_writeByte_other _ _ _ _ (h m rfl)

set_option maxHeartbeats 4000000 in
theorem frame_mem (i : Instr) (len : UInt16) (x : Arch) (addr : UInt16) (hb : isBlockLoad i = false)
    (h : addr ∉ addrsWritten i x) : (exec i len x).bus.readByte addr = x.bus.readByte addr := by
  cases i <;> simp only [isBlockLoad, Bool.true_eq_false] at hb <;> simp only [exec, cpRepeat, Arch.setPC_bus]
  case ld8 dst src =>
    apply write8_bus_other
    intro m hm; subst hm; simpa [addrsWritten] using h
  case inc8 l =>
    apply write8_bus_other (x.setFlags _)
    intro m hm; subst hm; rw [addrOf_setFlags]; simpa [addrsWritten] using h
  case dec8 l =>
    apply write8_bus_other (x.setFlags _)
    intro m hm; subst hm; rw [addrOf_setFlags]; simpa [addrsWritten] using h
  case rot op l =>
    apply write8_bus_other (x.setFlags _)
    intro m hm; subst hm; rw [addrOf_setFlags]; simpa [addrsWritten] using h
  case set b l =>
    apply write8_bus_other
    intro m hm; subst hm; simpa [addrsWritten] using h
  case res b l =>
    apply write8_bus_other
    intro m hm; subst hm; simpa [addrsWritten] using h
  case st16m nn src =>
    simp only [addrsWritten, List.mem_cons, List.not_mem_nil, or_false, not_or] at h
    exact Bus.readByte_writeWord_other _ _ _ _ h.1 h.2
  case push r =>
    simp only [addrsWritten, List.mem_cons, List.not_mem_nil, or_false, not_or] at h
    exact Bus.readByte_writeWord_other _ _ _ _ h.1 h.2
  case call nn =>
    simp only [addrsWritten, List.mem_cons, List.not_mem_nil, or_false, not_or] at h
    exact Bus.readByte_writeWord_other _ _ _ _ h.1 h.2
  case rst v =>
    simp only [addrsWritten, List.mem_cons, List.not_mem_nil, or_false, not_or] at h
    exact Bus.readByte_writeWord_other _ _ _ _ h.1 h.2
  case callcc cc nn =>
    simp only [addrsWritten, List.mem_cons, List.not_mem_nil, or_false, not_or] at h
    split
    · exact Bus.readByte_writeWord_other _ _ _ _ h.1 h.2
    · rfl
  case exSP r =>
    simp only [addrsWritten, List.mem_cons, List.not_mem_nil, or_false, not_or] at h
    exact Bus.readByte_writeWord_other _ _ _ _ h.1 h.2
  case rld =>
    simp only [addrsWritten, List.mem_cons, List.not_mem_nil, or_false] at h
    exact Bus.readByte_writeByte_other _ _ _ _ h
  case rrd =>
    simp only [addrsWritten, List.mem_cons, List.not_mem_nil, or_false] at h
    exact Bus.readByte_writeByte_other _ _ _ _ h
  case ldi =>
    simp only [addrsWritten, List.mem_cons, List.not_mem_nil, or_false] at h
    exact Bus.readByte_writeByte_other _ _ _ _ h
  case ldd =>
    simp only [addrsWritten, List.mem_cons, List.not_mem_nil, or_false] at h
    exact Bus.readByte_writeByte_other _ _ _ _ h
  case cpir => rw [cpLoop_bus]
  case cpdr => rw [cpLoop_bus]
  all_goals first
    | rfl
    | (split <;> rfl)

/-! ### the block loads write only the destination range -/

theorem ldStep_de (up : Bool) (a : Arch) : (ldStep up a).reg.getDE = (if up then a.reg.getDE + 1 else a.reg.getDE - 1) := by
  have : (ldStep up a).reg.getDE =
      ((a.reg.setDE (if up then a.reg.getDE + 1 else a.reg.getDE - 1)).getDE) := rfl
  rw [this]; exact mkWord_hi_lo _

/-- the k-th destination address of a block load started with DE = `de` -/
def destAddr (up : Bool) (de : UInt16) (k : Nat) : UInt16 := if up then de + UInt16.ofNat k else de - UInt16.ofNat k

theorem iter_ldStep_frame (up : Bool) (n : Nat) (a : Arch) (addr : UInt16)
    (h : ∀ k, k < n → addr ≠ destAddr up a.reg.getDE k) :
    (iter (ldStep up) n a).bus.readByte addr = a.bus.readByte addr := by
  induction n generalizing a with
  | zero => rfl
  | succ n ih =>
    simp only [iter]
    rw [ih]
    · have h0 := h 0 (by omega)
      simp only [destAddr] at h0
      have : addr ≠ a.reg.getDE := by
        cases up <;> simpa using h0
      exact Bus.readByte_writeByte_other _ _ _ _ this
    · intro k hk
      have := h (k + 1) (by omega)
      rw [ldStep_de]
      unfold destAddr at *
      cases up
      · simp only [Bool.false_eq_true, ↓reduceIte] at *
        intro e; apply this; rw [e]
        apply UInt16.eq_of_toBitVec_eq; simp [UInt16.ofNat, BitVec.ofNat_add, BitVec.sub_sub, BitVec.add_comm]
      · simp only [↓reduceIte] at *
        intro e; apply this; rw [e]
        apply UInt16.eq_of_toBitVec_eq; simp [UInt16.ofNat, BitVec.ofNat_add, BitVec.add_assoc, BitVec.add_comm]

end Z80
