/-
  Z80.Lemmas.Pc — where PC goes: sequential instructions, sign extension of displacements.
-/
import Z80.Model.Dasm
import Z80.Lemmas.Enum
namespace Z80

/-- instructions that may load PC with something other than `pc + length` (HALT keeps it) -/
def transfers : Instr → Bool
  | .jp _ | .jpcc _ _ | .jr _ | .jrcc _ _ | .jpR _ | .djnz _ | .call _ | .callcc _ _
  | .ret | .retcc _ | .reti | .retn | .rst _ | .halt => true
  | _ => false

@[simp] theorem Arch.setPC_pc (a : Arch) (pc : UInt16) : (a.setPC pc).reg.pc = pc := rfl

/-- every non-transfer instruction leaves PC at the instruction's address plus its length -/
theorem exec_pc_seq (i : Instr) (len : UInt16) (a : Arch) (h : transfers i = false) :
    (exec i len a).reg.pc = a.reg.pc + len := by
  cases i <;> simp only [transfers, Bool.true_eq_false] at h <;> simp only [exec, Arch.setPC_pc]

/-- sign extension of a displacement byte to 16 bits -/
def sext (e : UInt8) : UInt16 := e.toInt8.toInt16.toUInt16

/-- byte-level bridge: the two-branch form of the code is sign extension -/
theorem signedToAbs_bridge :
    ∀ e : UInt8, (bitGet e 7 = true → (0 : UInt16) - (signedToAbs e).toUInt16 = sext e) ∧
                 (bitGet e 7 = false → e.toUInt16 = sext e) := by
  have h : ∀ e : UInt8, ((!bitGet e 7 || ((0 : UInt16) - (signedToAbs e).toUInt16 == sext e)) &&
                         (bitGet e 7 || (e.toUInt16 == sext e))) = true :=
    forall_u8 (p := fun e => (!bitGet e 7 || ((0 : UInt16) - (signedToAbs e).toUInt16 == sext e)) &&
                         (bitGet e 7 || (e.toUInt16 == sext e))) (by decide +kernel)
  intro e
  have := h e
  simp only [Bool.and_eq_true, Bool.or_eq_true, Bool.not_eq_true', beq_iff_eq] at this
  constructor
  · intro hb; rcases this.1 with h1 | h1
    · rw [hb] at h1; cases h1
    · exact h1
  · intro hb; rcases this.2 with h1 | h1
    · rw [hb] at h1; cases h1
    · exact h1

private theorem u16_sub_eq (x y : UInt16) : x - y = x + (0 - y) := by
  apply UInt16.eq_of_toBitVec_eq; simp [BitVec.sub_eq_add_neg]

private theorem u16_add_comm3 (x y z : UInt16) : x + y + z = x + z + y := by
  apply UInt16.eq_of_toBitVec_eq; simp [BitVec.add_assoc, BitVec.add_comm y.toBitVec]

/-- indexed addressing: `base - |d|` / `base + d` is `base + sext d` modulo 65,536, for all 2^24 inputs -/
theorem displace_eq (base : UInt16) (d : UInt8) : displace base d = base + sext d := by
  unfold displace
  obtain ⟨h1, h2⟩ := signedToAbs_bridge d
  cases hb : bitGet d 7
  · simp only [Bool.false_eq_true, ↓reduceIte]; rw [h2 hb]
  · simp only [↓reduceIte]; rw [u16_sub_eq, h1 hb]

/-- relative jumps: the target is the address of the following instruction plus the signed displacement -/
theorem relTarget_eq (pc : UInt16) (e : UInt8) : relTarget pc e = pc + 2 + sext e := by
  unfold relTarget
  obtain ⟨h1, h2⟩ := signedToAbs_bridge e
  cases hb : bitGet e 7
  · simp only [Bool.false_eq_true, ↓reduceIte]; rw [h2 hb, u16_add_comm3]
  · simp only [↓reduceIte]; rw [u16_sub_eq, h1 hb]

theorem dasmRel_eq (address : UInt16) (e : UInt8) : dasmRel address e = address + 2 + sext e := by
  unfold dasmRel
  obtain ⟨h1, h2⟩ := signedToAbs_bridge e
  cases hb : bitGet e 7
  · simp only [Bool.false_eq_true, ↓reduceIte]; rw [h2 hb]
  · simp only [↓reduceIte]; rw [u16_sub_eq, h1 hb]

end Z80
