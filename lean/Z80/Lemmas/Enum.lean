/-
  Z80.Lemmas.Enum — kernel enumeration over complete byte / word domains:
  a Bool-valued bounded quantifier with a soundness lemma, so that `decide +kernel`
  can discharge `∀ x : UInt8, ..` and `∀ x : UInt16, ..` goals.
-/
namespace Z80

def allBelow : Nat → (Nat → Bool) → Bool
  | 0, _ => true
  | n + 1, p => p n && allBelow n p

theorem allBelow_sound {n : Nat} {p : Nat → Bool} (h : allBelow n p = true) : ∀ i, i < n → p i = true := by
  induction n with
  | zero => intro i hi; omega
  | succ n ih =>
    intro i hi
    simp only [allBelow, Bool.and_eq_true] at h
    by_cases hin : i = n
    · subst hin; exact h.1
    · exact ih h.2 i (by omega)

theorem forall_u8 {p : UInt8 → Bool} (h : allBelow 256 (fun i => p (UInt8.ofNat i)) = true) : ∀ x, p x = true := by
  intro x
  have := allBelow_sound h x.toNat x.toNat_lt
  simpa using this

theorem forall_u16 {p : UInt16 → Bool} (h : allBelow 65536 (fun i => p (UInt16.ofNat i)) = true) : ∀ x, p x = true := by
  intro x
  have := allBelow_sound h x.toNat x.toNat_lt
  simpa using this

theorem forall_bool {p : Bool → Bool} (h : (p false && p true) = true) : ∀ x, p x = true := by
  intro x; cases x <;> simp_all

end Z80
