/-
  Z80.Lemmas.Block — the block-repeat loops of the model terminate within their fuel and equal
  the iterated single step.
-/
import Z80.Model.Exec
import Z80.Lemmas.Word
namespace Z80

/-- `f` applied `n` times -/
def iter {α : Type} (f : α → α) : Nat → α → α
  | 0, a => a
  | n + 1, a => iter f n (f a)

theorem iter_succ' {α : Type} (f : α → α) (n : Nat) (a : α) : iter f (n + 1) a = f (iter f n a) := by
  induction n generalizing a with
  | zero => rfl
  | succ n ih => simp only [iter] at *; rw [ih]

@[simp] theorem Regs.getBC_setBC (r : Regs) (v : UInt16) : (r.setBC v).getBC = v := mkWord_hi_lo v

theorem ldStep_bc (up : Bool) (a : Arch) : (ldStep up a).reg.getBC = a.reg.getBC - 1 := by
  have : (ldStep up a).reg.getBC =
      (((a.reg.setDE (if up then a.reg.getDE + 1 else a.reg.getDE - 1)).setHL
        (if up then a.reg.getHL + 1 else a.reg.getHL - 1)).setBC (a.reg.getBC - 1)).getBC := rfl
  rw [this, Regs.getBC_setBC]

theorem cpStep_bc (up : Bool) (a : Arch) : (cpStep up a).reg.getBC = a.reg.getBC - 1 := by
  have : (cpStep up a).reg.getBC =
      ((a.reg.setHL (if up then a.reg.getHL + 1 else a.reg.getHL - 1)).setBC (a.reg.getBC - 1)).getBC := rfl
  rw [this, Regs.getBC_setBC]

/-- number of iterations of a block repeat started with `bc`: 65,536 for 0 -/
def blockCount (bc : UInt16) : Nat := if bc = 0 then 65536 else bc.toNat

theorem blockCount_pos (bc : UInt16) : 0 < blockCount bc := by
  unfold blockCount; split
  · omega
  · rename_i h; have : bc.toNat ≠ 0 := fun hz => h (UInt16.toNat_inj.mp (by simpa using hz)); omega

theorem blockCount_le (bc : UInt16) : blockCount bc ≤ 65536 := by
  unfold blockCount; split
  · omega
  · have := bc.toNat_lt; omega

theorem sub_one_eq_zero (w : UInt16) : w - 1 = 0 ↔ w = 1 := by
  constructor
  · intro h
    have := congrArg UInt16.toNat h
    apply UInt16.toNat_inj.mp
    simp [UInt16.toNat_sub] at this ⊢
    have := w.toNat_lt
    omega
  · intro h; subst h; rfl

theorem blockCount_pred (w : UInt16) (h : w - 1 ≠ 0) : blockCount (w - 1) + 1 = blockCount w := by
  unfold blockCount
  simp only [h, ↓reduceIte]
  have hlt := w.toNat_lt
  by_cases hz : w = 0
  · subst hz; simp
  · simp only [hz, ↓reduceIte]
    have : w.toNat ≠ 0 := fun hh => hz (UInt16.toNat_inj.mp (by simpa using hh))
    simp [UInt16.toNat_sub]
    omega

theorem blockCount_one (w : UInt16) (h : w - 1 = 0) : blockCount w = 1 := by
  rw [(sub_one_eq_zero w).mp h]; rfl

/-- with enough fuel the LDIR/LDDR loop is the single step iterated `blockCount BC` times -/
theorem ldLoop_eq_iter (up : Bool) (fuel : Nat) (a : Arch) (h : blockCount a.reg.getBC ≤ fuel) :
    ldLoop up fuel a = iter (ldStep up) (blockCount a.reg.getBC) a := by
  induction fuel generalizing a with
  | zero => have := blockCount_pos a.reg.getBC; omega
  | succ fuel ih =>
    simp only [ldLoop]
    by_cases hz : (ldStep up a).reg.getBC = 0
    · simp only [hz, beq_self_eq_true, ↓reduceIte]
      rw [ldStep_bc] at hz
      rw [blockCount_one _ hz]; rfl
    · have hz' : ((ldStep up a).reg.getBC == 0) = false := by simpa using hz
      simp only [hz', Bool.false_eq_true, ↓reduceIte]
      have hb := ldStep_bc up a
      rw [hb] at hz
      have hc := blockCount_pred _ hz
      rw [ih _ (by rw [hb]; omega), hb, ← hc]
      rfl

theorem ldRepeat_eq_iter (up : Bool) (a : Arch) :
    ldRepeat up a = iter (ldStep up) (blockCount a.reg.getBC) a :=
  ldLoop_eq_iter up 65536 a (blockCount_le _)

theorem iter_ldStep_bc (up : Bool) (n : Nat) (a : Arch) :
    (iter (ldStep up) n a).reg.getBC = a.reg.getBC - UInt16.ofNat n := by
  induction n generalizing a with
  | zero => simp [iter]
  | succ n ih =>
    simp only [iter]; rw [ih, ldStep_bc]
    apply UInt16.eq_of_toBitVec_eq
    simp [UInt16.ofNat, BitVec.ofNat_add]
    rw [BitVec.sub_sub, BitVec.add_comm]

theorem iter_cpStep_bc (up : Bool) (n : Nat) (a : Arch) :
    (iter (cpStep up) n a).reg.getBC = a.reg.getBC - UInt16.ofNat n := by
  induction n generalizing a with
  | zero => simp [iter]
  | succ n ih =>
    simp only [iter]; rw [ih, cpStep_bc]
    apply UInt16.eq_of_toBitVec_eq
    simp [UInt16.ofNat, BitVec.ofNat_add]
    rw [BitVec.sub_sub, BitVec.add_comm]

/-- the stop condition of CPIR/CPDR after a single step -/
def cpStops (a : Arch) : Bool := a.reg.getBC == 0 || a.reg.flags.z

/-- with enough fuel the CPIR/CPDR loop is the single step iterated up to the first stop -/
theorem cpLoop_spec (up : Bool) (fuel : Nat) (a : Arch) (h : blockCount a.reg.getBC ≤ fuel) :
    ∃ k, 0 < k ∧ k ≤ blockCount a.reg.getBC ∧ cpLoop up fuel a = iter (cpStep up) k a ∧
      cpStops (iter (cpStep up) k a) = true ∧ ∀ j, 0 < j → j < k → cpStops (iter (cpStep up) j a) = false := by
  induction fuel generalizing a with
  | zero => have := blockCount_pos a.reg.getBC; omega
  | succ fuel ih =>
    simp only [cpLoop]
    by_cases hs : cpStops (cpStep up a) = true
    · refine ⟨1, by omega, blockCount_pos _, ?_, hs, fun j h1 h2 => by omega⟩
      have : ((cpStep up a).reg.getBC == 0 || (cpStep up a).reg.flags.z) = true := hs
      simp only [this, ↓reduceIte]; rfl
    · have hs' : ((cpStep up a).reg.getBC == 0 || (cpStep up a).reg.flags.z) = false := by
        simpa [cpStops] using hs
      simp only [hs', Bool.false_eq_true, ↓reduceIte]
      have hb := cpStep_bc up a
      have hz : a.reg.getBC - 1 ≠ 0 := by
        intro e; rw [← hb] at e
        simp [e] at hs'
      have hc := blockCount_pred _ hz
      obtain ⟨k, hk0, hk1, hk2, hk3, hk4⟩ := ih (cpStep up a) (by rw [hb]; omega)
      refine ⟨k + 1, by omega, by rw [hb] at hk1; omega, hk2, hk3, ?_⟩
      intro j hj0 hj1
      cases j with
      | zero => omega
      | succ j =>
        cases j with
        | zero => simpa [iter] using hs
        | succ j => exact hk4 (j + 1) (by omega) (by omega)

end Z80
