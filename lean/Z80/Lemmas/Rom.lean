/-
  Z80.Lemmas.Rom — everything the CPU does to the bus goes through `writeByte`/`writeWord`,
  hence preserves the bytes inside the declared ROM range (and the range, and the size).
-/
import Z80.Model.Run
import Z80.Lemmas.Bus
namespace Z80
open Bus

/-- `b'` has the same ROM declaration and size as `b` and agrees with it on every ROM byte. -/
structure RomEq (b b' : Bus) : Prop where
  rom : b'.rom = b.rom
  size : b'.mem.size = b.mem.size
  bytes : ∀ x, b.inRom x = true → b'.readByte x = b.readByte x

namespace RomEq

theorem refl (b : Bus) : RomEq b b := ⟨rfl, rfl, fun _ _ => rfl⟩

theorem trans {a b c : Bus} (h1 : RomEq a b) (h2 : RomEq b c) : RomEq a c :=
  ⟨h2.rom.trans h1.rom, h2.size.trans h1.size, fun x hx => by
    have hb : b.inRom x = true := by unfold inRom at *; rw [h1.rom]; exact hx
    rw [h2.bytes x hb, h1.bytes x hx]⟩

theorem writeByte (b : Bus) (a : UInt16) (v : UInt8) : RomEq b (b.writeByte a v) :=
  ⟨by simp, by simp, fun x hx => readByte_writeByte_rom b a x v hx⟩

theorem writeWord (b : Bus) (a w : UInt16) : RomEq b (b.writeWord a w) :=
  ⟨by simp, by simp, fun x hx => readByte_writeWord_rom b a x w hx⟩

theorem of_eq {b b' : Bus} (h : b' = b) : RomEq b b' := h ▸ refl b

end RomEq

/-! ### the helpers of `exec` -/

@[simp] theorem Arch.setPC_bus (a : Arch) (pc : UInt16) : (a.setPC pc).bus = a.bus := rfl
@[simp] theorem Arch.setFlags_bus (a : Arch) (f : Flags) : (a.setFlags f).bus = a.bus := rfl
@[simp] theorem Arch.setA_bus (a : Arch) (v : UInt8) : (a.setA v).bus = a.bus := rfl
@[simp] theorem Arch.popWord_bus (a : Arch) : a.popWord.2.bus = a.bus := rfl

theorem Arch.write8_romEq (a : Arch) (l : Loc8) (v : UInt8) : RomEq a.bus (a.write8 l v).bus := by
  cases l with
  | reg r => exact RomEq.refl _
  | mem m => exact RomEq.writeByte _ _ _

theorem Arch.write8_romEq' (a : Arch) (f : Flags) (l : Loc8) (v : UInt8) :
    RomEq a.bus ((a.setFlags f).write8 l v).bus := Arch.write8_romEq (a.setFlags f) l v

theorem Arch.pushWord_romEq (a : Arch) (w : UInt16) : RomEq a.bus (a.pushWord w).bus :=
  RomEq.writeWord _ _ _

theorem ldStep_romEq (up : Bool) (a : Arch) : RomEq a.bus (ldStep up a).bus :=
  RomEq.writeByte _ _ _

@[simp] theorem cpStep_bus (up : Bool) (a : Arch) : (cpStep up a).bus = a.bus := rfl

theorem ldLoop_romEq (up : Bool) (n : Nat) (a : Arch) : RomEq a.bus (ldLoop up n a).bus := by
  induction n generalizing a with
  | zero => exact RomEq.refl _
  | succ n ih =>
    simp only [ldLoop]
    split
    · exact ldStep_romEq up a
    · exact (ldStep_romEq up a).trans (ih _)

theorem cpLoop_bus (up : Bool) (n : Nat) (a : Arch) : (cpLoop up n a).bus = a.bus := by
  induction n generalizing a with
  | zero => rfl
  | succ n ih =>
    simp only [cpLoop]
    split
    · rfl
    · rw [ih]; rfl

/-- every instruction leaves the ROM bytes, the ROM declaration and the bus size alone. -/
theorem exec_romEq (i : Instr) (len : UInt16) (a : Arch) : RomEq a.bus (exec i len a).bus := by
  cases i <;> simp only [exec, Arch.setPC_bus]
  all_goals first
    | exact RomEq.refl _
    | exact Arch.write8_romEq _ _ _
    | exact Arch.write8_romEq' _ _ _ _
    | exact Arch.pushWord_romEq _ _
    | exact RomEq.writeWord _ _ _
    | exact RomEq.writeByte _ _ _
    | exact ldStep_romEq _ _
    | exact ldLoop_romEq _ _ _
    | exact RomEq.of_eq (cpLoop_bus _ _ _)
    | (split <;> first | exact RomEq.refl _ | exact Arch.pushWord_romEq _ _)

theorem acceptNmi_romEq (a : Arch) : RomEq a.bus (acceptNmi a).bus := Arch.pushWord_romEq _ _

theorem acceptInt_romEq (a : Arch) (b : UInt8) : RomEq a.bus (acceptInt a b).bus := by
  unfold acceptInt
  split
  · exact RomEq.refl _
  · split
    · exact Arch.pushWord_romEq { a with iff1 := false, iff2 := false } _
    · exact RomEq.refl _

theorem dispatch_romEq (a : Arch) : RomEq a.bus (dispatch a).1.bus := exec_romEq _ _ _

theorem wake_romEq (a : Arch) : RomEq a.bus (wake a).bus := by
  unfold wake; split <;> exact RomEq.refl _

theorem takeNmi_romEq (a : Arch) : RomEq a.bus (takeNmi a).bus := by
  unfold takeNmi; split
  · exact acceptNmi_romEq _
  · exact RomEq.refl _

theorem takeInt_romEq (a : Arch) : RomEq a.bus (takeInt a).bus := by
  unfold takeInt; split
  · exact acceptInt_romEq _ _
  · exact RomEq.refl _

theorem preDispatch_romEq (a : Arch) : RomEq a.bus (preDispatch a).bus :=
  ((wake_romEq a).trans (takeNmi_romEq _)).trans (takeInt_romEq _)

/-- one step of the CPU, including interrupt acceptance and the halted case. -/
theorem stepArch_romEq (a : Arch) : RomEq a.bus (stepArch a).1.bus := by
  unfold stepArch
  split
  · exact RomEq.refl _
  · exact (preDispatch_romEq a).trans (dispatch_romEq _)

theorem step_romEq (c : Cpu) : RomEq c.arch.bus (step c).1.arch.bus := stepArch_romEq c.arch

theorem executeTimed_romEq (c : Cpu) (e : Option UInt32) : RomEq c.arch.bus (executeTimed c e).1.arch.bus :=
  stepArch_romEq c.arch

theorem loadBin_rom (b : Bus) (file : Option (List UInt8)) (org : UInt16) (b' : Bus) (n : Nat)
    (h : b.loadBin file org = some (.ok (b', n))) : b'.rom = b.rom := by
  unfold Bus.loadBin at h
  split at h
  · simp at h
  · split at h
    · simp at h
    · split at h
      · simp only [Option.some.injEq, Except.ok.injEq, Prod.mk.injEq] at h
        rw [← h.1]
      · simp at h

theorem clearMemSlice_rom (b : Bus) (s e : Nat) (b' : Bus) (h : b.clearMemSlice s e = some b') : b'.rom = b.rom := by
  unfold Bus.clearMemSlice at h
  split at h
  · simp only [Option.some.injEq] at h; rw [← h]
  · simp at h

/-- the ROM declaration is touched by `set_romspace` only: not by any step, request, store, load (successful,
    failed or refused), clear, observation, clock setting or register assignment -/
theorem runEvent_rom_decl (c : Cpu) (e : Event) (hr : e.isSetRom = false) : (runEvent c e).arch.bus.rom = c.arch.bus.rom := by
  cases e with
  | setRom s t => simp [Event.isSetRom] at hr
  | step => exact (step_romEq c).rom
  | timed e => exact (executeTimed_romEq c e).rom
  | int b => rfl
  | nmi => rfl
  | writeByte a v => exact (RomEq.writeByte _ _ _).rom
  | writeWord a w => exact (RomEq.writeWord _ _ _).rom
  | load file org =>
    show (c.loadBin file org).arch.bus.rom = _
    unfold Cpu.loadBin
    split
    · rename_i b n h; exact loadBin_rom _ _ _ _ _ h
    · rfl
  | clear s t =>
    show (c.clearSlice s t).arch.bus.rom = _
    unfold Cpu.clearSlice
    split
    · rename_i b h; exact clearMemSlice_rom _ _ _ _ h
    · rfl
  | observe => rfl
  | setFreq n => rfl
  | setSliceDuration d => rfl
  | hostReg w v => rfl

theorem run_rom_decl (c : Cpu) (es : List Event) (hr : ∀ e ∈ es, e.isSetRom = false) :
    (run c es).arch.bus.rom = c.arch.bus.rom := by
  induction es generalizing c with
  | nil => rfl
  | cons e es ih =>
    show (run (runEvent c e) es).arch.bus.rom = _
    rw [ih _ (fun x hx => hr x (by simp [hx])), runEvent_rom_decl c e (hr e (by simp))]

theorem runEvent_romEq (c : Cpu) (e : Event) (hr : e.isSetRom = false) (ho : e.overwrites = false) :
    RomEq c.arch.bus (runEvent c e).arch.bus := by
  cases e with
  | setRom s t => simp [Event.isSetRom] at hr
  | load file org => simp [Event.overwrites] at ho
  | clear s t => simp [Event.overwrites] at ho
  | step => exact step_romEq c
  | timed e => exact executeTimed_romEq c e
  | int b => exact RomEq.refl _
  | nmi => exact RomEq.refl _
  | writeByte a v => exact RomEq.writeByte _ _ _
  | writeWord a w => exact RomEq.writeWord _ _ _
  | observe => exact RomEq.refl _
  | setFreq n => exact RomEq.refl _
  | setSliceDuration d => exact RomEq.refl _
  | hostReg w v => exact RomEq.refl _

theorem run_romEq (c : Cpu) (es : List Event) (hr : ∀ e ∈ es, e.isSetRom = false ∧ e.overwrites = false) :
    RomEq c.arch.bus (run c es).arch.bus := by
  induction es generalizing c with
  | nil => exact RomEq.refl _
  | cons e es ih =>
    exact (runEvent_romEq c e (hr e (by simp)).1 (hr e (by simp)).2).trans (ih _ (fun x hx => hr x (by simp [hx])))

theorem run_append (c : Cpu) (es1 es2 : List Event) : run c (es1 ++ es2) = run (run c es1) es2 := by
  simp [run, List.foldl_append]

end Z80
