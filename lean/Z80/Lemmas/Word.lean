/-
  Z80.Lemmas.Word — byte/word packing identities, proved bit by bit.
-/
import Z80.Model.Basic
namespace Z80

/-- unfold a `UInt16`/`UInt8` identity built from shifts, masks and width changes to its bits. -/
macro "word_bits_simp" : tactic =>
  `(tactic| simp only [mkWord, hiByte, loByte, UInt16.toBitVec_or, UInt16.toBitVec_shiftLeft, UInt8.toBitVec_toUInt16,
      UInt16.toBitVec_toUInt8, UInt16.toBitVec_shiftRight, UInt16.toBitVec_and, UInt8.toBitVec_or, UInt8.toBitVec_and,
      UInt8.toBitVec_shiftLeft, UInt8.toBitVec_shiftRight])

macro "cases16" i:ident : tactic =>
  `(tactic| (
    have h16 : $i = 0 ∨ $i = 1 ∨ $i = 2 ∨ $i = 3 ∨ $i = 4 ∨ $i = 5 ∨ $i = 6 ∨ $i = 7 ∨ $i = 8 ∨ $i = 9 ∨ $i = 10 ∨
        $i = 11 ∨ $i = 12 ∨ $i = 13 ∨ $i = 14 ∨ $i = 15 := by omega
    rcases h16 with h|h|h|h|h|h|h|h|h|h|h|h|h|h|h|h <;> subst h))

macro "cases8" i:ident : tactic =>
  `(tactic| (
    have h8 : $i = 0 ∨ $i = 1 ∨ $i = 2 ∨ $i = 3 ∨ $i = 4 ∨ $i = 5 ∨ $i = 6 ∨ $i = 7 := by omega
    rcases h8 with h|h|h|h|h|h|h|h <;> subst h))

theorem mkWord_hi_lo (w : UInt16) : mkWord (hiByte w) (loByte w) = w := by
  apply UInt16.eq_of_toBitVec_eq
  word_bits_simp
  ext i hi
  cases16 i <;> simp [BitVec.getElem_or] <;> rfl

theorem shr8_eq_hiByte (w : UInt16) : (w >>> 8).toUInt8 = hiByte w := by
  apply UInt8.eq_of_toBitVec_eq
  word_bits_simp
  ext i hi
  cases8 i <;> simp

theorem hiByte_mkWord (h l : UInt8) : hiByte (mkWord h l) = h := by
  apply UInt8.eq_of_toBitVec_eq
  word_bits_simp
  ext i hi
  cases8 i <;> simp

theorem loByte_mkWord (h l : UInt8) : loByte (mkWord h l) = l := by
  apply UInt8.eq_of_toBitVec_eq
  word_bits_simp
  ext i hi
  cases8 i <;> simp

end Z80
