/-
  Z80.Lemmas.TableRows — the row-by-row table facts restated for every opcode byte, and lifted to
  whatever `decode` returns.
-/
import Z80.Lemmas.Tables
namespace Z80

theorem row_doc_impl_base (op b1 b2 : UInt8) : (!docNonIo .base op || !isUnknown (decodeBase op b1 b2).1) = true :=
  row_of_table (p := fun o => !docNonIo .base o || !isUnknown (decodeBase o b1 b2).1) (doc_impl_base b1 b2) op
theorem row_doc_impl_cb (op : UInt8) : (!isUnknown (decodeCB op).1) = true :=
  row_of_table (p := fun o => !isUnknown (decodeCB o).1) doc_impl_cb op
theorem row_doc_impl_ed (op b2 b3 : UInt8) : (!docNonIo .ed op || !isUnknown (decodeED op b2 b3).1) = true :=
  row_of_table (p := fun o => !docNonIo .ed o || !isUnknown (decodeED o b2 b3).1) (doc_impl_ed b2 b3) op
theorem row_doc_impl_idx (x : Idx) (op b2 b3 : UInt8) : (!docNonIo .dd op || !isUnknown (decodeIdx x op b2 b3).1) = true :=
  row_of_table (p := fun o => !docNonIo .dd o || !isUnknown (decodeIdx x o b2 b3).1) (doc_impl_idx x b2 b3) op
theorem row_doc_impl_idxcb (x : Idx) (d op : UInt8) : (!docNonIo .ddcb op || !isUnknown (decodeIdxCB x d op).1) = true :=
  row_of_table (p := fun o => !docNonIo .ddcb o || !isUnknown (decodeIdxCB x d o).1) (doc_impl_idxcb x d) op

theorem row_timing_base (op b1 b2 : UInt8) : timingRowOk .base op (decodeBase op b1 b2).1 = true :=
  row_of_table (p := fun o => timingRowOk .base o (decodeBase o b1 b2).1) (timing_base b1 b2) op
theorem row_timing_cb (op : UInt8) : timingRowOk .cb op (decodeCB op).1 = true :=
  row_of_table (p := fun o => timingRowOk .cb o (decodeCB o).1) timing_cb op
theorem row_timing_ed (op b2 b3 : UInt8) : timingRowOk .ed op (decodeED op b2 b3).1 = true :=
  row_of_table (p := fun o => timingRowOk .ed o (decodeED o b2 b3).1) (timing_ed b2 b3) op
theorem row_timing_idx (x : Idx) (op b2 b3 : UInt8) :
    timingRowOk (match x with | .ix => .dd | .iy => .fd) op (decodeIdx x op b2 b3).1 = true :=
  row_of_table (p := fun o => timingRowOk (match x with | .ix => .dd | .iy => .fd) o (decodeIdx x o b2 b3).1) (timing_idx x b2 b3) op
theorem row_timing_idxcb (x : Idx) (d op : UInt8) :
    timingRowOk (match x with | .ix => .ddcb | .iy => .fdcb) op (decodeIdxCB x d op).1 = true :=
  row_of_table (p := fun o => timingRowOk (match x with | .ix => .ddcb | .iy => .fdcb) o (decodeIdxCB x d o).1) (timing_idxcb x d) op

theorem row_dasm_size_base (op b1 b2 : UInt8) :
    ((dasmBase.getD op.toNat []).isEmpty || (dasmSize op).toUInt16 == (decodeBase op b1 b2).2) = true := by
  have := allBelow_sound (dasm_size_base b1 b2) op.toNat op.toNat_lt
  simpa using this
theorem row_dasm_size_cb (op : UInt8) : (decodeCB op).2 = 2 := by
  have := row_of_table (p := fun o => (decodeCB o).2 == 2) dasm_size_cb op
  simpa using this

/-! ### what `decode` returns is always a row of one of the seven pages -/

/-- `d` is the row `d.op` of page `d.page`, decoded with some operand bytes -/
def IsRow (d : Decoded) : Prop :=
  match d.page with
  | .base => isPrefix d.op = false ∧ ∃ b1 b2, (d.instr, d.len) = decodeBase d.op b1 b2
  | .cb => (d.instr, d.len) = decodeCB d.op
  | .ed => ∃ b2 b3, (d.instr, d.len) = decodeED d.op b2 b3
  | .dd => ∃ b2 b3, (d.instr, d.len) = decodeIdx .ix d.op b2 b3
  | .fd => ∃ b2 b3, (d.instr, d.len) = decodeIdx .iy d.op b2 b3
  | .ddcb => ∃ dd, (d.instr, d.len) = decodeIdxCB .ix dd d.op
  | .fdcb => ∃ dd, (d.instr, d.len) = decodeIdxCB .iy dd d.op

theorem decode_isRow (bus : Bus) (pc : UInt16) (first : UInt8) :
    IsRow (decode bus pc first) ∨ ((decode bus pc first).instr = .unknown ∧ (decode bus pc first).len = 2) := by
  unfold decode
  by_cases hp : isPrefix first = true
  · simp only [hp, ↓reduceIte]
    split
    · exact Or.inl rfl
    · exact Or.inl ⟨_, _, rfl⟩
    · split
      · exact Or.inl ⟨_, rfl⟩
      · exact Or.inl ⟨_, _, rfl⟩
    · split
      · exact Or.inl ⟨_, rfl⟩
      · exact Or.inl ⟨_, _, rfl⟩
    · exact Or.inr ⟨rfl, rfl⟩
  · simp only [hp, Bool.false_eq_true, ↓reduceIte]
    exact Or.inl ⟨by simpa using hp, _, _, rfl⟩

/-- a documented, non-I/O row decodes to an executed instruction -/
theorem isRow_doc_impl (d : Decoded) (hr : IsRow d) (hd : docNonIo d.page d.op = true) : d.instr ≠ .unknown := by
  intro hu
  have hunk : isUnknown d.instr = true := by rw [hu]; rfl
  unfold IsRow at hr
  obtain ⟨i, len, page, op⟩ := d
  simp only at hr hd hunk
  cases page <;> simp only at hr
  · obtain ⟨_, b1, b2, e⟩ := hr
    have := row_doc_impl_base op b1 b2
    rw [← e] at this; simp [hd, hunk] at this
  · have := row_doc_impl_cb op
    rw [← hr] at this; simp [hunk] at this
  · obtain ⟨b2, b3, e⟩ := hr
    have := row_doc_impl_ed op b2 b3
    rw [← e] at this; simp [hd, hunk] at this
  · obtain ⟨b2, b3, e⟩ := hr
    have := row_doc_impl_idx .ix op b2 b3
    rw [← e] at this
    have hd' : docNonIo .dd op = true := hd
    simp [hd', hunk] at this
  · obtain ⟨b2, b3, e⟩ := hr
    have := row_doc_impl_idx .iy op b2 b3
    rw [← e] at this
    have hd' : docNonIo .dd op = true := hd
    simp [hd', hunk] at this
  · obtain ⟨dd, e⟩ := hr
    have := row_doc_impl_idxcb .ix dd op
    rw [← e] at this
    have hd' : docNonIo .ddcb op = true := hd
    simp [hd', hunk] at this
  · obtain ⟨dd, e⟩ := hr
    have := row_doc_impl_idxcb .iy dd op
    rw [← e] at this
    have hd' : docNonIo .ddcb op = true := hd
    simp [hd', hunk] at this

/-- the timing row fact for whatever `decode` returned -/
theorem isRow_timing (d : Decoded) (hr : IsRow d) : timingRowOk d.page d.op d.instr = true := by
  unfold IsRow at hr
  obtain ⟨i, len, page, op⟩ := d
  simp only at hr ⊢
  cases page <;> simp only at hr
  · obtain ⟨_, b1, b2, e⟩ := hr
    have := row_timing_base op b1 b2; rw [← e] at this; exact this
  · have := row_timing_cb op; rw [← hr] at this; exact this
  · obtain ⟨b2, b3, e⟩ := hr
    have := row_timing_ed op b2 b3; rw [← e] at this; exact this
  · obtain ⟨b2, b3, e⟩ := hr
    have := row_timing_idx .ix op b2 b3; rw [← e] at this; exact this
  · obtain ⟨b2, b3, e⟩ := hr
    have := row_timing_idx .iy op b2 b3; rw [← e] at this; exact this
  · obtain ⟨dd, e⟩ := hr
    have := row_timing_idxcb .ix dd op; rw [← e] at this; exact this
  · obtain ⟨dd, e⟩ := hr
    have := row_timing_idxcb .iy dd op; rw [← e] at this; exact this

end Z80
