/-
  Z80.Lemmas.Nest — n nested CALLs followed by n RETs.
-/
import Z80.Lemmas.Pc
import Z80.Lemmas.Bus
import Z80.Lemmas.Word
import Z80.Lemmas.Block
namespace Z80

/-- n nested calls: each (target, length of the CALL instruction) executed where the previous one landed -/
def calls (a : Arch) : List (UInt16 × UInt16) → Arch
  | [] => a
  | (nn, len) :: rest => calls (exec (.call nn) len a) rest

/-- `addr` is one of the 2n stack bytes below `sp` -/
def inStack (sp : UInt16) (n : Nat) (addr : UInt16) : Prop := (sp - 1 - addr).toNat < 2 * n

theorem not_inStack_zero (sp addr : UInt16) : ¬ inStack sp 0 addr := by unfold inStack; omega

private theorem succ_ne' (a : UInt16) : a ≠ a + 1 := by
  intro h; have := congrArg UInt16.toNat h; simp [UInt16.toNat_add] at this; omega

theorem pushWord_spec (a : Arch) (w : UInt16) (h0 : a.bus.writable (a.reg.sp - 2)) (h1 : a.bus.writable (a.reg.sp - 2 + 1)) :
    (a.pushWord w).bus.readWord (a.reg.sp - 2) = w := by
  have e0 : (a.bus.writeWord (a.reg.sp - 2) w).readByte (a.reg.sp - 2) = loByte w := by
    unfold Bus.writeWord
    rw [Bus.readByte_writeByte_other _ _ _ _ (succ_ne' _), Bus.readByte_writeByte_same _ _ _ h0]
  have e1 : (a.bus.writeWord (a.reg.sp - 2) w).readByte (a.reg.sp - 2 + 1) = hiByte w := by
    unfold Bus.writeWord
    rw [Bus.readByte_writeByte_same, shr8_eq_hiByte]
    exact ⟨by simpa using h1.1, by simpa using h1.2⟩
  show mkWord ((a.bus.writeWord (a.reg.sp - 2) w).readByte (a.reg.sp - 2 + 1))
    ((a.bus.writeWord (a.reg.sp - 2) w).readByte (a.reg.sp - 2)) = w
  rw [e0, e1, mkWord_hi_lo]

theorem writable_writeWord (b : Bus) (a w x : UInt16) : (b.writeWord a w).writable x ↔ b.writable x := by
  unfold Bus.writable; simp

/-- n CALLs then n RETs: SP is restored, memory outside the 2n stack bytes is untouched, and the last
    RET returns to the instruction after the first CALL -/
theorem nest (l : List (UInt16 × UInt16)) (a : Arch) (hn : 2 * l.length ≤ 65536)
    (hw : ∀ addr, inStack a.reg.sp l.length addr → a.bus.writable addr) :
    let s := iter (exec .ret 1) l.length (calls a l)
    s.reg.sp = a.reg.sp ∧ (∀ addr, ¬ inStack a.reg.sp l.length addr → s.bus.readByte addr = a.bus.readByte addr) ∧
    (∀ x, s.bus.writable x ↔ a.bus.writable x) ∧
    (∀ nn len rest, l = (nn, len) :: rest → s.reg.pc = a.reg.pc + len) := by
  induction l generalizing a with
  | nil =>
    refine ⟨rfl, fun _ _ => rfl, fun _ => Iff.rfl, ?_⟩
    intro nn len rest h; cases h
  | cons x rest ih =>
    obtain ⟨nn, len⟩ := x
    simp only [List.length_cons] at hn hw ⊢
    -- the state after the first CALL
    let a1 := exec (.call nn) len a
    have hsp1 : a1.reg.sp = a.reg.sp - 2 := rfl
    have hbus1 : a1.bus = a.bus.writeWord (a.reg.sp - 2) (a.reg.pc + len) := rfl
    have hw0 : a.bus.writable (a.reg.sp - 2) := hw _ (by
      unfold inStack
      have : (a.reg.sp - 1 - (a.reg.sp - 2)) = 1 := by apply UInt16.eq_of_toBitVec_eq; simp; bv_omega
      rw [this]; simp; omega)
    have hw1 : a.bus.writable (a.reg.sp - 2 + 1) := hw _ (by
      unfold inStack
      have : (a.reg.sp - 1 - (a.reg.sp - 2 + 1)) = 0 := by apply UInt16.eq_of_toBitVec_eq; simp; bv_omega
      rw [this]; simp)
    -- inner region is part of the outer region
    have hsub : ∀ addr, inStack a1.reg.sp rest.length addr → inStack a.reg.sp (rest.length + 1) addr := by
      intro addr h
      unfold inStack at *
      rw [hsp1] at h
      have e : a.reg.sp - 1 - addr = (a.reg.sp - 2 - 1 - addr) + 2 := by
        apply UInt16.eq_of_toBitVec_eq; simp; bv_omega
      rw [e, UInt16.toNat_add]
      have := (a.reg.sp - 2 - 1 - addr).toNat_lt
      simp; omega
    obtain ⟨i1, i2, i3, i4⟩ := ih a1 (by omega) (by
      intro addr h
      rw [hbus1, writable_writeWord]
      exact hw addr (hsub addr h))
    -- the outer frame bytes are outside the inner region
    have hout : ∀ addr, (addr = a.reg.sp - 2 ∨ addr = a.reg.sp - 2 + 1) → ¬ inStack a1.reg.sp rest.length addr := by
      intro addr h hin
      unfold inStack at hin
      rw [hsp1] at hin
      rcases h with h | h <;> subst h
      · have : a.reg.sp - 2 - 1 - (a.reg.sp - 2) = 0xFFFF := by apply UInt16.eq_of_toBitVec_eq; simp; bv_omega
        rw [this] at hin; simp at hin; omega
      · have : a.reg.sp - 2 - 1 - (a.reg.sp - 2 + 1) = 0xFFFE := by apply UInt16.eq_of_toBitVec_eq; simp; bv_omega
        rw [this] at hin; simp at hin; omega
    -- one more RET
    generalize hs' : iter (exec .ret 1) rest.length (calls a1 rest) = s' at *
    have key : iter (exec .ret 1) (rest.length + 1) (calls a ((nn, len) :: rest)) = exec .ret 1 s' := by
      show iter (exec .ret 1) (rest.length + 1) (calls a1 rest) = _
      rw [iter_succ', hs']
    have hword : s'.bus.readWord s'.reg.sp = a.reg.pc + len := by
      rw [i1, hsp1]
      unfold Bus.readWord
      rw [i2 _ (hout _ (Or.inr rfl)), i2 _ (hout _ (Or.inl rfl))]
      exact pushWord_spec a _ hw0 hw1
    have hret : exec .ret 1 s' = { s' with reg := { s'.reg with sp := s'.reg.sp + 2, pc := s'.bus.readWord s'.reg.sp } } := rfl
    simp only [key, hret]
    refine ⟨?_, ?_, ?_, ?_⟩
    · show s'.reg.sp + 2 = a.reg.sp
      rw [i1, hsp1]; apply UInt16.eq_of_toBitVec_eq; simp
    · intro addr hnot
      show s'.bus.readByte addr = _
      have hnot1 : ¬ inStack a1.reg.sp rest.length addr := fun h => hnot (hsub addr h)
      rw [i2 addr hnot1, hbus1]
      apply Bus.readByte_writeWord_other
      · intro e; apply hnot; subst e
        unfold inStack
        have : (a.reg.sp - 1 - (a.reg.sp - 2)) = 1 := by apply UInt16.eq_of_toBitVec_eq; simp; bv_omega
        rw [this]; simp; omega
      · intro e; apply hnot; subst e
        unfold inStack
        have : (a.reg.sp - 1 - (a.reg.sp - 2 + 1)) = 0 := by apply UInt16.eq_of_toBitVec_eq; simp; bv_omega
        rw [this]; simp
    · intro x
      show s'.bus.writable x ↔ _
      rw [i3, hbus1, writable_writeWord]
    · intro nn' len' rest' h
      cases h
      show s'.bus.readWord s'.reg.sp = _
      exact hword
end Z80
