/-
  Z80.Lemmas.Bus — read-after-write, size and ROM lemmas of the bus model.
-/
import Z80.Model.Basic
namespace Z80
namespace Bus

@[simp] theorem writeByte_rom (b : Bus) (a : UInt16) (v : UInt8) : (b.writeByte a v).rom = b.rom := by
  unfold writeByte; split <;> rfl

@[simp] theorem writeByte_size (b : Bus) (a : UInt16) (v : UInt8) : (b.writeByte a v).mem.size = b.mem.size := by
  unfold writeByte; split <;> simp

@[simp] theorem writeByte_inRom (b : Bus) (a : UInt16) (v : UInt8) (x : UInt16) :
    (b.writeByte a v).inRom x = b.inRom x := by
  unfold inRom; rw [writeByte_rom]

/-- An address is writable when it is at or below the top address and outside the ROM range. -/
def writable (b : Bus) (a : UInt16) : Prop := a.toNat < b.mem.size ∧ b.inRom a = false

instance (b : Bus) (a : UInt16) : Decidable (b.writable a) := by unfold writable; exact inferInstance

theorem readByte_writeByte (b : Bus) (a x : UInt16) (v : UInt8) :
    (b.writeByte a v).readByte x = if x = a ∧ b.writable a then v else b.readByte x := by
  unfold writeByte readByte writable
  by_cases hr : b.inRom a = true
  · simp [hr]
  · simp only [hr, Bool.false_eq_true, ↓reduceIte] at *
    rw [Array.getD_eq_getD_getElem?, Array.getElem?_setIfInBounds, Array.getD_eq_getD_getElem?]
    by_cases hx : x = a
    · subst hx
      by_cases hs : x.toNat < b.mem.size <;> simp [hs]
    · have : a.toNat ≠ x.toNat := fun h => hx (UInt16.toNat_inj.mp h.symm)
      simp [hx, this]

theorem readByte_writeByte_same (b : Bus) (a : UInt16) (v : UInt8) (h : b.writable a) :
    (b.writeByte a v).readByte a = v := by
  rw [readByte_writeByte]; simp [h]

theorem readByte_writeByte_other (b : Bus) (a x : UInt16) (v : UInt8) (h : x ≠ a) :
    (b.writeByte a v).readByte x = b.readByte x := by
  rw [readByte_writeByte]; simp [h]

theorem readByte_writeByte_rom (b : Bus) (a x : UInt16) (v : UInt8) (h : b.inRom x = true) :
    (b.writeByte a v).readByte x = b.readByte x := by
  rw [readByte_writeByte]
  split
  · rename_i h2; obtain ⟨rfl, _, h3⟩ := h2; simp [h] at h3
  · rfl

theorem readByte_above_top (b : Bus) (a : UInt16) (h : b.mem.size ≤ a.toNat) : b.readByte a = 0 := by
  unfold readByte; rw [Array.getD_eq_getD_getElem?]; simp [h]

theorem writeByte_above_top (b : Bus) (a : UInt16) (v : UInt8) (h : b.mem.size ≤ a.toNat) :
    b.writeByte a v = b := by
  unfold writeByte; split
  · rfl
  · have : b.mem.setIfInBounds a.toNat v = b.mem := by
      unfold Array.setIfInBounds; simp [Nat.not_lt.mpr h]
    rw [this]

theorem writeByte_in_rom (b : Bus) (a : UInt16) (v : UInt8) (h : b.inRom a = true) :
    b.writeByte a v = b := by
  unfold writeByte; simp [h]

/-! ### words -/

@[simp] theorem writeWord_rom (b : Bus) (a : UInt16) (w : UInt16) : (b.writeWord a w).rom = b.rom := by
  unfold writeWord; simp

@[simp] theorem writeWord_size (b : Bus) (a : UInt16) (w : UInt16) : (b.writeWord a w).mem.size = b.mem.size := by
  unfold writeWord; simp

@[simp] theorem writeWord_inRom (b : Bus) (a : UInt16) (w : UInt16) (x : UInt16) :
    (b.writeWord a w).inRom x = b.inRom x := by
  unfold writeWord; simp

theorem readByte_writeWord_rom (b : Bus) (a x : UInt16) (w : UInt16) (h : b.inRom x = true) :
    (b.writeWord a w).readByte x = b.readByte x := by
  unfold writeWord
  rw [readByte_writeByte_rom _ _ _ _ (by simpa using h), readByte_writeByte_rom _ _ _ _ h]

theorem readByte_writeWord_other (b : Bus) (a x : UInt16) (w : UInt16) (h1 : x ≠ a) (h2 : x ≠ a + 1) :
    (b.writeWord a w).readByte x = b.readByte x := by
  unfold writeWord
  rw [readByte_writeByte_other _ _ _ _ h2, readByte_writeByte_other _ _ _ _ h1]

end Bus
end Z80
