/-
  Z80.Lemmas.AluCheck — comparing a model ALU core with the specification, and lifting a check
  made with all non-participating incoming flags clear to arbitrary incoming flags.
-/
import Z80.Model.Alu
import Z80.Spec.Arith
import Z80.Lemmas.Enum
namespace Z80

/-- result and the six documented flags agree with the specification's output -/
def agrees (o : Spec.Out) (res : UInt8 × Flags) : Bool :=
  res.1.toNat == o.r && res.2.s == o.s && res.2.z == o.z && res.2.h == o.h && res.2.p == o.pv &&
  res.2.n == o.n && res.2.c == o.c

/-- as a proposition, with the two unused bits passed through from `f` -/
def Agrees (o : Spec.Out) (res : UInt8 × Flags) (f : Flags) : Prop :=
  res.1.toNat = o.r ∧ (res.2.s = true ↔ o.s = true) ∧ (res.2.z = true ↔ o.z = true) ∧ (res.2.h = true ↔ o.h = true) ∧
  (res.2.p = true ↔ o.pv = true) ∧ (res.2.n = true ↔ o.n = true) ∧ (res.2.c = true ↔ o.c = true) ∧
  res.2.b5 = f.b5 ∧ res.2.b3 = f.b3

/-- the same statement with plain equalities of flag values -/
theorem Agrees.eqs {o : Spec.Out} {res : UInt8 × Flags} {f : Flags} (h : Agrees o res f) :
    res.1.toNat = o.r ∧ res.2.s = o.s ∧ res.2.z = o.z ∧ res.2.h = o.h ∧ res.2.p = o.pv ∧ res.2.n = o.n ∧ res.2.c = o.c ∧
    res.2.b5 = f.b5 ∧ res.2.b3 = f.b3 := by
  obtain ⟨h1, h2, h3, h4, h5, h6, h7, h8, h9⟩ := h
  exact ⟨h1, Bool.eq_iff_iff.mpr h2, Bool.eq_iff_iff.mpr h3, Bool.eq_iff_iff.mpr h4, Bool.eq_iff_iff.mpr h5,
    Bool.eq_iff_iff.mpr h6, Bool.eq_iff_iff.mpr h7, h8, h9⟩

theorem Agrees.of_agrees {o : Spec.Out} {res : UInt8 × Flags} {f : Flags}
    (h : (res.1.toNat == o.r && res.2.s == o.s && res.2.z == o.z && res.2.h == o.h && res.2.p == o.pv &&
      res.2.n == o.n && res.2.c == o.c) = true) (h5 : res.2.b5 = f.b5) (h3 : res.2.b3 = f.b3) : Agrees o res f := by
  simp only [Bool.and_eq_true, beq_iff_eq] at h
  obtain ⟨⟨⟨⟨⟨⟨h1, h2⟩, h3'⟩, h4⟩, h5'⟩, h6⟩, h7⟩ := h
  exact ⟨h1, by rw [h2], by rw [h3'], by rw [h4], by rw [h5'], by rw [h6], by rw [h7], h5, h3⟩

theorem agrees_iff (o : Spec.Out) (res : UInt8 × Flags) :
    agrees o res = true ↔ (res.1.toNat = o.r ∧ res.2.s = o.s ∧ res.2.z = o.z ∧ res.2.h = o.h ∧ res.2.p = o.pv ∧
      res.2.n = o.n ∧ res.2.c = o.c) := by
  simp [agrees, and_assoc]

/-- two-operand table over all (a, n) for one fixed incoming flag record -/
def table2 (p : UInt8 → UInt8 → Bool) : Bool :=
  allBelow 256 (fun a => allBelow 256 (fun n => p (UInt8.ofNat a) (UInt8.ofNat n)))

theorem table2_sound {p : UInt8 → UInt8 → Bool} (h : table2 p = true) (a n : UInt8) : p a n = true := by
  have h1 := allBelow_sound h a.toNat a.toNat_lt
  have h2 := allBelow_sound h1 n.toNat n.toNat_lt
  simpa using h2

def table1 (p : UInt8 → Bool) : Bool := allBelow 256 (fun a => p (UInt8.ofNat a))

theorem table1_sound {p : UInt8 → Bool} (h : table1 p = true) (a : UInt8) : p a = true := by
  have h1 := allBelow_sound h a.toNat a.toNat_lt
  simpa using h1

end Z80
