/-
  Z80.Lemmas.Swap — renaming IX <-> IY: on instructions, on states, and how `decode` and `exec`
  commute with it.
-/
import Z80.Model.Step
namespace Z80

def Idx.swap : Idx → Idx | .ix => .iy | .iy => .ix
def R8.swap : R8 → R8
  | .ixh => .iyh | .ixl => .iyl | .iyh => .ixh | .iyl => .ixl | r => r
def R16.swap : R16 → R16 | .ix => .iy | .iy => .ix | r => r
def MemRef.swap : MemRef → MemRef | .idx i d => .idx i.swap d | m => m
def Loc8.swap : Loc8 → Loc8 | .reg r => .reg r.swap | .mem m => .mem m.swap
def Op8.swap : Op8 → Op8 | .loc l => .loc l.swap | .imm n => .imm n

/-- the same instruction with IX and IY (and their halves) renamed -/
def swapI : Instr → Instr
  | .ld8 d s => .ld8 d.swap s.swap
  | .ld16 d nn => .ld16 d.swap nn
  | .ld16m d nn => .ld16m d.swap nn
  | .st16m nn s => .st16m nn s.swap
  | .ldSP s => .ldSP s.swap
  | .push r => .push r.swap
  | .pop r => .pop r.swap
  | .exSP r => .exSP r.swap
  | .alu op s => .alu op s.swap
  | .inc8 l => .inc8 l.swap
  | .dec8 l => .dec8 l.swap
  | .add16 d s => .add16 d.swap s.swap
  | .adc16 s => .adc16 s.swap
  | .sbc16 s => .sbc16 s.swap
  | .inc16 r => .inc16 r.swap
  | .dec16 r => .dec16 r.swap
  | .rot op l => .rot op l.swap
  | .bit b l => .bit b l.swap
  | .set b l => .set b l.swap
  | .res b l => .res b l.swap
  | .jpR r => .jpR r.swap
  | i => i

/-- the state with the contents of IX and IY exchanged -/
def Regs.swapXY (r : Regs) : Regs := { r with ixh := r.iyh, ixl := r.iyl, iyh := r.ixh, iyl := r.ixl }
def Arch.swapXY (a : Arch) : Arch := { a with reg := a.reg.swapXY }

theorem locOf_swap (z : UInt8) : (locOf z).swap = locOf z := by
  unfold locOf; split <;> rfl

theorem locOfX_swap (i : Idx) (z : UInt8) : (locOfX i z).swap = locOfX i.swap z := by
  unfold locOfX; split
  · cases i <;> rfl
  · cases i <;> rfl
  · exact locOf_swap _

theorem rpOfX_swap (i : Idx) (p : UInt8) : (rpOfX i p).swap = rpOfX i.swap p := by
  unfold rpOfX; split <;> first | rfl | (cases i <;> rfl)

theorem idxR_swap (i : Idx) : (idxR i).swap = idxR i.swap := by cases i <;> rfl

/-- DDCB / FDCB rows: the FD row is the renamed DD row, for every fourth byte and displacement -/
theorem decodeIdxCB_swap (d op : UInt8) :
    decodeIdxCB .iy d op = (swapI (decodeIdxCB .ix d op).1, (decodeIdxCB .ix d op).2) := by
  simp only [decodeIdxCB]
  split
  · rfl
  · generalize op >>> 6 = x
    split <;> rfl

theorem idxH_swap (i : Idx) : (idxH i).swap = idxH i.swap := by cases i <;> rfl
theorem idxL_swap (i : Idx) : (idxL i).swap = idxL i.swap := by cases i <;> rfl

theorem Loc8.swap_reg (r : R8) : (Loc8.reg r).swap = .reg r.swap := rfl
theorem Loc8.swap_mem (m : MemRef) : (Loc8.mem m).swap = .mem m.swap := rfl
theorem Op8.swap_loc (l : Loc8) : (Op8.loc l).swap = .loc l.swap := rfl
theorem Op8.swap_imm (n : UInt8) : (Op8.imm n).swap = .imm n := rfl
theorem MemRef.swap_idx (i : Idx) (d : UInt8) : (MemRef.idx i d).swap = .idx i.swap d := rfl
theorem Idx.swap_ix : Idx.ix.swap = .iy := rfl
theorem Idx.swap_iy : Idx.iy.swap = .ix := rfl

macro "swap_norm" : tactic =>
  `(tactic| (simp only [swapI, rpOfX_swap, locOfX_swap, locOf_swap, idxR_swap, idxH_swap, idxL_swap,
      Loc8.swap_reg, Loc8.swap_mem, Op8.swap_loc, Op8.swap_imm, MemRef.swap_idx, Idx.swap_ix, Idx.swap_iy] at *))

set_option maxHeartbeats 1000000 in
theorem decodeIdx_swap (op b2 b3 : UInt8) (h : (decodeIdx .iy op b2 b3).1 ≠ .unknown) :
    decodeIdx .iy op b2 b3 = (swapI (decodeIdx .ix op b2 b3).1, (decodeIdx .ix op b2 b3).2) := by
  simp only [decodeIdx] at h ⊢
  generalize op >>> 6 = x at h ⊢
  generalize (op >>> 3) &&& 7 = y at h ⊢
  generalize op &&& 7 = z at h ⊢
  split
  · split <;> first | rfl | (swap_norm; done) | (swap_norm; simp_all)
  · split
    · rfl
    · split
      · swap_norm
      · split
        · swap_norm
        · swap_norm
  · split
    · swap_norm
    · split
      · swap_norm
      · rfl
  · split <;> first | rfl | (swap_norm; done)

/-! ### states -/

@[simp] theorem Regs.swapXY_swapXY (r : Regs) : r.swapXY.swapXY = r := rfl
@[simp] theorem Arch.swapXY_swapXY (a : Arch) : a.swapXY.swapXY = a := rfl

@[simp] theorem Regs.get8_swap (r : Regs) (x : R8) : r.swapXY.get8 x.swap = r.get8 x := by cases x <;> rfl
@[simp] theorem Regs.set8_swap (r : Regs) (x : R8) (v : UInt8) : r.swapXY.set8 x.swap v = (r.set8 x v).swapXY := by
  cases x <;> rfl
@[simp] theorem Regs.get16_swap (r : Regs) (x : R16) : r.swapXY.get16 x.swap = r.get16 x := by cases x <;> rfl
@[simp] theorem Regs.set16_swap (r : Regs) (x : R16) (v : UInt16) : r.swapXY.set16 x.swap v = (r.set16 x v).swapXY := by
  cases x <;> rfl

@[simp] theorem Arch.addrOf_swap (a : Arch) (m : MemRef) : a.swapXY.addrOf m.swap = a.addrOf m := by
  cases m with
  | idx i d => cases i <;> rfl
  | _ => rfl
@[simp] theorem Arch.read8_swap (a : Arch) (l : Loc8) : a.swapXY.read8 l.swap = a.read8 l := by
  cases l with
  | reg r => exact Regs.get8_swap _ _
  | mem m => show a.swapXY.bus.readByte (a.swapXY.addrOf m.swap) = _; rw [Arch.addrOf_swap]; rfl
@[simp] theorem Arch.readOp_swap (a : Arch) (o : Op8) : a.swapXY.readOp o.swap = a.readOp o := by
  cases o with
  | loc l => exact Arch.read8_swap _ _
  | imm n => rfl
@[simp] theorem Arch.write8_swap (a : Arch) (l : Loc8) (v : UInt8) : a.swapXY.write8 l.swap v = (a.write8 l v).swapXY := by
  cases l with
  | reg r => show ({ a.swapXY with reg := a.swapXY.reg.set8 r.swap v } : Arch) = _; rw [show a.swapXY.reg = a.reg.swapXY from rfl, Regs.set8_swap]; rfl
  | mem m => show ({ a.swapXY with bus := a.swapXY.bus.writeByte (a.swapXY.addrOf m.swap) v } : Arch) = _; rw [Arch.addrOf_swap]; rfl

@[simp] theorem Arch.swapXY_bus (a : Arch) : a.swapXY.bus = a.bus := rfl
@[simp] theorem Arch.swapXY_setPC (a : Arch) (pc : UInt16) : a.swapXY.setPC pc = (a.setPC pc).swapXY := rfl
@[simp] theorem Arch.swapXY_setFlags (a : Arch) (f : Flags) : a.swapXY.setFlags f = (a.setFlags f).swapXY := rfl
@[simp] theorem Arch.swapXY_setA (a : Arch) (v : UInt8) : a.swapXY.setA v = (a.setA v).swapXY := rfl
@[simp] theorem Arch.swapXY_pushWord (a : Arch) (w : UInt16) : a.swapXY.pushWord w = (a.pushWord w).swapXY := rfl
@[simp] theorem Arch.swapXY_popWord (a : Arch) : a.swapXY.popWord = (a.popWord.1, a.popWord.2.swapXY) := rfl
@[simp] theorem swapXY_ldStep (up : Bool) (a : Arch) : ldStep up a.swapXY = (ldStep up a).swapXY := rfl
@[simp] theorem swapXY_cpStep (up : Bool) (a : Arch) : cpStep up a.swapXY = (cpStep up a).swapXY := rfl

theorem swapXY_ldLoop (up : Bool) (n : Nat) (a : Arch) : ldLoop up n a.swapXY = (ldLoop up n a).swapXY := by
  induction n generalizing a with
  | zero => rfl
  | succ n ih =>
    rw [ldLoop, ldLoop, swapXY_ldStep]
    generalize ldStep up a = a1
    have : a1.swapXY.reg.getBC = a1.reg.getBC := rfl
    rw [this]; split
    · rfl
    · exact ih _

theorem swapXY_cpLoop (up : Bool) (n : Nat) (a : Arch) : cpLoop up n a.swapXY = (cpLoop up n a).swapXY := by
  induction n generalizing a with
  | zero => rfl
  | succ n ih =>
    rw [cpLoop, cpLoop, swapXY_cpStep]
    generalize cpStep up a = a1
    have h1 : a1.swapXY.reg.getBC = a1.reg.getBC := rfl
    have h2 : a1.swapXY.reg.flags = a1.reg.flags := rfl
    rw [h1, h2]; split
    · rfl
    · exact ih _

@[simp] theorem swapXY_flags (a : Arch) : a.swapXY.reg.flags = a.reg.flags := rfl
@[simp] theorem swapXY_pc (a : Arch) : a.swapXY.reg.pc = a.reg.pc := rfl
@[simp] theorem swapXY_rega (a : Arch) : a.swapXY.reg.a = a.reg.a := rfl
@[simp] theorem swapXY_regb (a : Arch) : a.swapXY.reg.b = a.reg.b := rfl

set_option maxHeartbeats 2000000 in
theorem exec_swap (i : Instr) (len : UInt16) (a : Arch) : exec (swapI i) len a.swapXY = (exec i len a).swapXY := by
  cases i <;> simp only [swapI, exec, ldRepeat, cpRepeat, swapXY_ldLoop, swapXY_cpLoop, swapXY_ldStep, swapXY_cpStep,
    Arch.swapXY_setPC, Arch.read8_swap, Arch.readOp_swap, Arch.write8_swap, Arch.swapXY_setFlags, swapXY_flags, swapXY_pc,
    Arch.swapXY_pushWord, Arch.swapXY_popWord, swapXY_rega, swapXY_regb, Arch.swapXY_bus]
  case ld16 d nn => cases d <;> rfl
  case ld16m d nn => cases d <;> rfl
  case st16m nn r => cases r <;> rfl
  case ldSP r => cases r <;> rfl
  case push r => cases r <;> rfl
  case pop r => cases r <;> rfl
  case exSP r => cases r <;> rfl
  case add16 d s => cases d <;> cases s <;> rfl
  case adc16 r => cases r <;> rfl
  case sbc16 r => cases r <;> rfl
  case inc16 r => cases r <;> rfl
  case dec16 r => cases r <;> rfl
  case jpR r => cases r <;> rfl
  case djnz e =>
    by_cases h : a.reg.b - 1 = 0
    · simp [h]; rfl
    · have : (a.reg.b - 1 != 0) = true := by simpa using h
      simp only [this, ↓reduceIte]; rfl
  all_goals first
    | rfl
    | (split <;> simp_all)

end Z80
