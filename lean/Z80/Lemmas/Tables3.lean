/-
  Z80.Lemmas.Tables3 — every decoded instruction is one the manual defines: no POP into SP, bit
  numbers 0..7 (row tables, operand bytes free).
-/
import Z80.Lemmas.TableRows
namespace Z80

def wfInstr : Instr → Bool
  | .pop r => r != .sp
  | .set b _ | .res b _ | .bit b _ => decide (b.toNat < 8)
  | _ => true

set_option maxRecDepth 100000 in
theorem wf_base (b1 b2 : UInt8) : allBelow 256 (fun i => wfInstr (decodeBase (UInt8.ofNat i) b1 b2).1) = true := rfl
set_option maxRecDepth 100000 in
theorem wf_cb : allBelow 256 (fun i => wfInstr (decodeCB (UInt8.ofNat i)).1) = true := rfl
set_option maxRecDepth 100000 in
theorem wf_ed (b2 b3 : UInt8) : allBelow 256 (fun i => wfInstr (decodeED (UInt8.ofNat i) b2 b3).1) = true := rfl
set_option maxRecDepth 100000 in
theorem wf_idx (x : Idx) (b2 b3 : UInt8) : allBelow 256 (fun i => wfInstr (decodeIdx x (UInt8.ofNat i) b2 b3).1) = true := by
  cases x <;> rfl
set_option maxRecDepth 100000 in
theorem wf_idxcb (x : Idx) (d : UInt8) : allBelow 256 (fun i => wfInstr (decodeIdxCB x d (UInt8.ofNat i)).1) = true := by
  cases x <;> rfl

theorem isRow_wf (d : Decoded) (hr : IsRow d) : wfInstr d.instr = true := by
  unfold IsRow at hr
  obtain ⟨i, len, page, op⟩ := d
  simp only at hr ⊢
  cases page <;> simp only at hr
  · obtain ⟨_, b1, b2, e⟩ := hr
    have := row_of_table (p := fun o => wfInstr (decodeBase o b1 b2).1) (wf_base b1 b2) op; rw [← e] at this; exact this
  · have := row_of_table (p := fun o => wfInstr (decodeCB o).1) wf_cb op; rw [← hr] at this; exact this
  · obtain ⟨b2, b3, e⟩ := hr
    have := row_of_table (p := fun o => wfInstr (decodeED o b2 b3).1) (wf_ed b2 b3) op; rw [← e] at this; exact this
  · obtain ⟨b2, b3, e⟩ := hr
    have := row_of_table (p := fun o => wfInstr (decodeIdx .ix o b2 b3).1) (wf_idx .ix b2 b3) op; rw [← e] at this; exact this
  · obtain ⟨b2, b3, e⟩ := hr
    have := row_of_table (p := fun o => wfInstr (decodeIdx .iy o b2 b3).1) (wf_idx .iy b2 b3) op; rw [← e] at this; exact this
  · obtain ⟨dd, e⟩ := hr
    have := row_of_table (p := fun o => wfInstr (decodeIdxCB .ix dd o).1) (wf_idxcb .ix dd) op; rw [← e] at this; exact this
  · obtain ⟨dd, e⟩ := hr
    have := row_of_table (p := fun o => wfInstr (decodeIdxCB .iy dd o).1) (wf_idxcb .iy dd) op; rw [← e] at this; exact this

theorem decode_wf (bus : Bus) (pc : UInt16) (first : UInt8) : wfInstr (decode bus pc first).instr = true := by
  rcases decode_isRow bus pc first with h | h
  · exact isRow_wf _ h
  · rw [h.1]; rfl

end Z80
