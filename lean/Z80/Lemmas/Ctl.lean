/-
  Z80.Lemmas.Ctl — how `exec` treats the control fields (halt, int, nmi, im, iff1, iff2).
-/
import Z80.Model.Step
namespace Z80

@[simp] theorem Arch.setPC_nmi (a : Arch) (pc : UInt16) : (a.setPC pc).nmi = a.nmi := rfl
@[simp] theorem Arch.setPC_int (a : Arch) (pc : UInt16) : (a.setPC pc).int = a.int := rfl
@[simp] theorem Arch.setFlags_nmi (a : Arch) (f : Flags) : (a.setFlags f).nmi = a.nmi := rfl
@[simp] theorem Arch.setA_nmi (a : Arch) (v : UInt8) : (a.setA v).nmi = a.nmi := rfl
@[simp] theorem Arch.write8_nmi (a : Arch) (l : Loc8) (v : UInt8) : (a.write8 l v).nmi = a.nmi := by
  cases l <;> rfl
@[simp] theorem Arch.pushWord_nmi (a : Arch) (w : UInt16) : (a.pushWord w).nmi = a.nmi := rfl
@[simp] theorem Arch.popWord_nmi (a : Arch) : a.popWord.2.nmi = a.nmi := rfl
@[simp] theorem ldStep_nmi (up : Bool) (a : Arch) : (ldStep up a).nmi = a.nmi := rfl
@[simp] theorem cpStep_nmi (up : Bool) (a : Arch) : (cpStep up a).nmi = a.nmi := rfl

theorem ldLoop_nmi (up : Bool) (n : Nat) (a : Arch) : (ldLoop up n a).nmi = a.nmi := by
  induction n generalizing a with
  | zero => rfl
  | succ n ih => simp only [ldLoop]; split <;> simp [ih]

theorem cpLoop_nmi (up : Bool) (n : Nat) (a : Arch) : (cpLoop up n a).nmi = a.nmi := by
  induction n generalizing a with
  | zero => rfl
  | succ n ih => simp only [cpLoop]; split <;> simp [ih]

/-- no instruction raises or clears the NMI latch -/
theorem exec_nmi (i : Instr) (len : UInt16) (a : Arch) : (exec i len a).nmi = a.nmi := by
  cases i <;> simp only [exec, ldRepeat, cpRepeat, Arch.setPC_nmi, Arch.write8_nmi, Arch.pushWord_nmi, Arch.setFlags_nmi,
    Arch.setA_nmi, ldStep_nmi, cpStep_nmi, ldLoop_nmi, cpLoop_nmi]
  all_goals first
    | rfl
    | (split <;> rfl)

theorem takeInt_nmi (a : Arch) : (takeInt a).nmi = a.nmi := by
  unfold takeInt; split
  · unfold acceptInt; split
    · rfl
    · split <;> rfl
  · rfl

theorem preDispatch_nmi (a : Arch) : (preDispatch a).nmi = false := by
  unfold preDispatch; rw [takeInt_nmi]
  unfold takeNmi; split
  · rfl
  · rename_i h
    have : (wake a).nmi = a.nmi := by unfold wake; split <;> rfl
    rw [this] at h ⊢; simpa using h

/-- no request survives a step that is not a halted idle step -/
theorem stepArch_latches (a : Arch) (h : (a.halt && !a.wakes) = false) :
    (stepArch a).1.int = none ∧ (stepArch a).1.nmi = false := by
  have e : (stepArch a).1 = (dispatch (preDispatch a)).1 := by
    simp only [stepArch, h, Bool.false_eq_true, ↓reduceIte]
  rw [e]
  refine ⟨rfl, ?_⟩
  show (exec _ _ _).nmi = false
  rw [exec_nmi]
  exact preDispatch_nmi a

end Z80
