/-
  Z80.Lemmas.EffectsSound — `exec` agrees with the second semantics `Spec.effects` on every register
  C01 names and on the whole bus, for every instruction where the manual defines a single operation.
-/
import Z80.Lemmas.Effects
import Z80.Lemmas.Frame
import Z80.Props.C02
import Z80.Props.C09
namespace Z80
open Spec

theorem assign_nil (g : RegName → UInt16) (r : RegName) : assign [] g r = g r := rfl

theorem assign_cons (r' : RegName) (v : UInt16) (l) (g : RegName → UInt16) (r : RegName) :
    assign ((r', v) :: l) g r = if r' = r then v else assign l g r := by
  simp only [assign, List.find?]
  by_cases h : r' = r
  · simp [h]
  · have : (r' == r) = false := by simpa using h
    simp [this, h]

/-- registers after writing a pair, in the specification's vocabulary -/
theorem getReg_set16 (x : Arch) (p : R16) (w n : UInt16) (r : RegName) :
    getReg { x with reg := { x.reg.set16 p w with pc := n } } r = assign (setPair p w) (getReg x) r := by
  cases p <;> cases r <;> first | rfl | exact (hi_eq w).symm | exact (lo_eq w).symm

theorem getReg_set16f (x : Arch) (p : R16) (w n : UInt16) (f : Flags) (r : RegName) :
    getReg { x with reg := { x.reg.set16 p w with flags := f, pc := n } } r = assign (setPair p w) (getReg x) r := by
  cases p <;> cases r <;> first | rfl | exact (hi_eq w).symm | exact (lo_eq w).symm

/-! ### values: core result = specified number -/

theorem u8_toNat16 (v : UInt8) : v.toUInt16.toNat = v.toNat := by simp

theorem alu_val (op : AluOp) (a n : UInt8) (f : Flags) :
    ofN (aluV op a.toNat n.toNat (b2n f.c)) = (aluApply op a n f).1.toUInt16 := by
  apply ofN_of_toNat
  cases op
  · exact (C02_add a n f).1
  · exact (C02_adc a n f).1
  · exact (C02_sub a n f).1
  · exact (C02_sbc a n f).1
  · exact (C02_and a n f).1
  · exact (C02_xor a n f).1
  · exact (C02_or a n f).1
  · rfl

theorem rot_val (op : RotOp) (n : UInt8) (f : Flags) :
    ofN (rotV op n.toNat (b2n f.c)) = (rotApply op n f).1.toUInt16 := by
  apply ofN_of_toNat
  cases op
  · exact (C02_rlc n f).1
  · exact (C02_rrc n f).1
  · exact (C02_rl n f).1
  · exact (C02_rr n f).1
  · exact (C02_sla n f).1
  · exact (C02_sra n f).1
  · exact (C02_sll n f).1
  · exact (C02_srl n f).1

theorem inc_val (n : UInt8) (f : Flags) : ofN (addW 8 n.toNat 1 0).r = (Alu.inc n f).1.toUInt16 :=
  ofN_of_toNat _ _ (C02_inc n f).1
theorem dec_val (n : UInt8) (f : Flags) : ofN (subW 8 n.toNat 1 0).r = (Alu.dec n f).1.toUInt16 :=
  ofN_of_toNat _ _ (C02_dec n f).1

theorem bitSet_val (v b : UInt8) (hb : b.toNat < 8) : ofN (v.toNat ||| 2 ^ b.toNat) = (bitSet v b).toUInt16 := by
  apply ofN_of_toNat
  have h := forall_u8 (p := fun v => (bitSet v 0).toNat == (v.toNat ||| 1) && (bitSet v 1).toNat == (v.toNat ||| 2) &&
    (bitSet v 2).toNat == (v.toNat ||| 4) && (bitSet v 3).toNat == (v.toNat ||| 8) && (bitSet v 4).toNat == (v.toNat ||| 16) &&
    (bitSet v 5).toNat == (v.toNat ||| 32) && (bitSet v 6).toNat == (v.toNat ||| 64) && (bitSet v 7).toNat == (v.toNat ||| 128))
    (by decide +kernel) v
  simp only [Bool.and_eq_true, beq_iff_eq] at h
  obtain ⟨⟨⟨⟨⟨⟨⟨h0, h1⟩, h2⟩, h3⟩, h4⟩, h5⟩, h6⟩, h7⟩ := h
  have : b = 0 ∨ b = 1 ∨ b = 2 ∨ b = 3 ∨ b = 4 ∨ b = 5 ∨ b = 6 ∨ b = 7 := by
    have e : ∀ k : Nat, k < 256 → b.toNat = k → b = UInt8.ofNat k := fun k _ e => by
      apply UInt8.toNat_inj.mp; simp [e]; omega
    have : b.toNat = 0 ∨ b.toNat = 1 ∨ b.toNat = 2 ∨ b.toNat = 3 ∨ b.toNat = 4 ∨ b.toNat = 5 ∨ b.toNat = 6 ∨ b.toNat = 7 := by omega
    rcases this with h|h|h|h|h|h|h|h
    · exact Or.inl (e 0 (by omega) h)
    · exact Or.inr (Or.inl (e 1 (by omega) h))
    · exact Or.inr (Or.inr (Or.inl (e 2 (by omega) h)))
    · exact Or.inr (Or.inr (Or.inr (Or.inl (e 3 (by omega) h))))
    · exact Or.inr (Or.inr (Or.inr (Or.inr (Or.inl (e 4 (by omega) h)))))
    · exact Or.inr (Or.inr (Or.inr (Or.inr (Or.inr (Or.inl (e 5 (by omega) h))))))
    · exact Or.inr (Or.inr (Or.inr (Or.inr (Or.inr (Or.inr (Or.inl (e 6 (by omega) h)))))))
    · exact Or.inr (Or.inr (Or.inr (Or.inr (Or.inr (Or.inr (Or.inr (e 7 (by omega) h)))))))
  rcases this with h|h|h|h|h|h|h|h <;> subst h <;> assumption

theorem bitReset_val (v b : UInt8) (hb : b.toNat < 8) : ofN (v.toNat &&& (255 - 2 ^ b.toNat)) = (bitReset v b).toUInt16 := by
  apply ofN_of_toNat
  have h := forall_u8 (p := fun v => (bitReset v 0).toNat == (v.toNat &&& 254) && (bitReset v 1).toNat == (v.toNat &&& 253) &&
    (bitReset v 2).toNat == (v.toNat &&& 251) && (bitReset v 3).toNat == (v.toNat &&& 247) && (bitReset v 4).toNat == (v.toNat &&& 239) &&
    (bitReset v 5).toNat == (v.toNat &&& 223) && (bitReset v 6).toNat == (v.toNat &&& 191) && (bitReset v 7).toNat == (v.toNat &&& 127))
    (by decide +kernel) v
  simp only [Bool.and_eq_true, beq_iff_eq] at h
  obtain ⟨⟨⟨⟨⟨⟨⟨h0, h1⟩, h2⟩, h3⟩, h4⟩, h5⟩, h6⟩, h7⟩ := h
  have : b = 0 ∨ b = 1 ∨ b = 2 ∨ b = 3 ∨ b = 4 ∨ b = 5 ∨ b = 6 ∨ b = 7 := by
    have e : ∀ k : Nat, k < 256 → b.toNat = k → b = UInt8.ofNat k := fun k _ e => by
      apply UInt8.toNat_inj.mp; simp [e]; omega
    have : b.toNat = 0 ∨ b.toNat = 1 ∨ b.toNat = 2 ∨ b.toNat = 3 ∨ b.toNat = 4 ∨ b.toNat = 5 ∨ b.toNat = 6 ∨ b.toNat = 7 := by omega
    rcases this with h|h|h|h|h|h|h|h
    · exact Or.inl (e 0 (by omega) h)
    · exact Or.inr (Or.inl (e 1 (by omega) h))
    · exact Or.inr (Or.inr (Or.inl (e 2 (by omega) h)))
    · exact Or.inr (Or.inr (Or.inr (Or.inl (e 3 (by omega) h))))
    · exact Or.inr (Or.inr (Or.inr (Or.inr (Or.inl (e 4 (by omega) h)))))
    · exact Or.inr (Or.inr (Or.inr (Or.inr (Or.inr (Or.inl (e 5 (by omega) h))))))
    · exact Or.inr (Or.inr (Or.inr (Or.inr (Or.inr (Or.inr (Or.inl (e 6 (by omega) h)))))))
    · exact Or.inr (Or.inr (Or.inr (Or.inr (Or.inr (Or.inr (Or.inr (e 7 (by omega) h)))))))
  rcases this with h|h|h|h|h|h|h|h <;> subst h <;> assumption

/-! ### registers -/

theorem getReg_a_toNat (x : Arch) : (getReg x .a).toNat = x.reg.a.toNat := by simp [getReg]

theorem getReg_write8_reg (x : Arch) (q : R8) (v : UInt8) (r : RegName) :
    getReg (x.write8 (.reg q) v) r = assign [(ofR8 q, v.toUInt16)] (getReg x) r := by
  cases q <;> cases r <;> rfl

theorem getReg_setFlags_fn (x : Arch) (f : Flags) : getReg (x.setFlags f) = getReg x := funext (getReg_setFlags x f)

theorem locV_reg_toNat (x : Arch) (q : R8) : (locV x (.reg q)).toNat = (x.reg.get8 q).toNat := by
  rw [locV_eq]; simp [Arch.read8]

set_option maxHeartbeats 1000000 in
theorem effects_regs (i : Instr) (len : UInt16) (x : Arch) (hd : defined i x) (r : RegName) :
    getReg (exec i len x) r = assign (effects i (x.reg.pc + len) x).regs (getReg x) r := by
  cases i
  case nop => exact frame_regs _ len x r (by simp [regsWritten])
  case halt => exact frame_regs _ len x r (by simp [regsWritten])
  case di => exact frame_regs _ len x r (by simp [regsWritten])
  case ei => exact frame_regs _ len x r (by simp [regsWritten])
  case im => exact frame_regs _ len x r (by simp [regsWritten])
  case ldRA => exact frame_regs _ len x r (by simp [regsWritten])
  case ccf => exact frame_regs _ len x r (by simp [regsWritten])
  case scf => exact frame_regs _ len x r (by simp [regsWritten])
  case bit => exact frame_regs _ len x r (by simp [regsWritten])
  case jp => exact frame_regs _ len x r (by simp [regsWritten])
  case jpcc => exact frame_regs _ len x r (by simp [regsWritten])
  case jr => exact frame_regs _ len x r (by simp [regsWritten])
  case jrcc => exact frame_regs _ len x r (by simp [regsWritten])
  case jpR => exact frame_regs _ len x r (by simp [regsWritten])
  case unknown => exact frame_regs _ len x r (by simp [regsWritten])
  case st16m => exact frame_regs _ len x r (by simp [regsWritten])
  case ldir => exact absurd hd (by simp [defined])
  case lddr => exact absurd hd (by simp [defined])
  case cpir => exact absurd hd (by simp [defined])
  case cpdr => exact absurd hd (by simp [defined])
  case ldAI => cases r <;> rfl
  case ldAR => cases r <;> rfl
  case ldIA => cases r <;> rfl
  case ld16 dst nn => exact getReg_set16 x dst nn _ r
  case ld16m dst nn =>
    show _ = assign (setPair dst (wordAt x nn)) _ _
    rw [wordAt_eq]; exact getReg_set16 x dst _ _ r
  case ldSP src => cases r <;> first | rfl | exact (pairV_eq x src).symm
  case push p => cases r <;> rfl
  case call nn => cases r <;> rfl
  case rst v => cases r <;> rfl
  case ret => cases r <;> rfl
  case reti => cases r <;> rfl
  case retn => cases r <;> rfl
  case ld8 dst src =>
    cases dst with
    | mem m => exact frame_regs _ len x r (by simp [regsWritten, ofLoc])
    | reg q =>
      show getReg ((x.write8 (.reg q) (x.readOp src)).setPC _) r = assign [(ofR8 q, opV x src)] _ _
      rw [getReg_setPC, opV_eq]
      cases q <;> cases r <;> rfl
  case pop p =>
    show _ = assign (setPair p (wordAt x (getReg x .sp)) ++ [(.sp, getReg x .sp + 2)]) _ _
    rw [wordAt_eq]
    have hp : p ≠ .sp := hd
    cases p
    case sp => exact absurd rfl hp
    all_goals (cases r <;> first | rfl | exact (hi_eq _).symm | exact (lo_eq _).symm)
  case exSP p =>
    show _ = assign (setPair p (wordAt x (getReg x .sp))) _ _
    rw [wordAt_eq]
    cases p <;> cases r <;> first | rfl | exact (hi_eq _).symm | exact (lo_eq _).symm
  case inc16 p =>
    show _ = assign (setPair p (pairV x p + 1)) _ _
    rw [pairV_eq]; exact getReg_set16 x p _ _ r
  case dec16 p =>
    show _ = assign (setPair p (pairV x p - 1)) _ _
    rw [pairV_eq]; exact getReg_set16 x p _ _ r
  case exDEHL =>
    cases r <;> first | rfl | exact congrArg UInt8.toUInt16 (hiByte_mkWord _ _) | exact congrArg UInt8.toUInt16 (loByte_mkWord _ _)
  case exx =>
    cases r <;> first | rfl | exact congrArg UInt8.toUInt16 (hiByte_mkWord _ _) | exact congrArg UInt8.toUInt16 (loByte_mkWord _ _)
  case exAF =>
    cases r
    case a => exact congrArg UInt8.toUInt16 (hiByte_mkWord _ _)
    case a' => exact congrArg UInt8.toUInt16 (hiByte_mkWord _ _)
    case f' =>
      show (Flags.ofByte (loByte (mkWord x.reg.a x.reg.flags.toByte))).toByte.toUInt16 = fByte x.reg.flags
      rw [loByte_mkWord, C09_flags_toByte_ofByte, fByte_eq]
    all_goals rfl
  case ldi =>
    show getReg ((ldStep true x).setPC _) r = assign (setPair .de (pairV x .de + 1) ++ setPair .hl (pairV x .hl + 1) ++ setPair .bc (pairV x .bc - 1)) _ _
    rw [getReg_setPC, pairV_eq, pairV_eq, pairV_eq]
    cases r <;> first | rfl | exact (hi_eq _).symm | exact (lo_eq _).symm
  case ldd =>
    show getReg ((ldStep false x).setPC _) r = assign (setPair .de (pairV x .de - 1) ++ setPair .hl (pairV x .hl - 1) ++ setPair .bc (pairV x .bc - 1)) _ _
    rw [getReg_setPC, pairV_eq, pairV_eq, pairV_eq]
    cases r <;> first | rfl | exact (hi_eq _).symm | exact (lo_eq _).symm
  case cpi =>
    show getReg ((cpStep true x).setPC _) r = assign (setPair .hl (pairV x .hl + 1) ++ setPair .bc (pairV x .bc - 1)) _ _
    rw [getReg_setPC, pairV_eq, pairV_eq]
    cases r <;> first | rfl | exact (hi_eq _).symm | exact (lo_eq _).symm
  case cpd =>
    show getReg ((cpStep false x).setPC _) r = assign (setPair .hl (pairV x .hl - 1) ++ setPair .bc (pairV x .bc - 1)) _ _
    rw [getReg_setPC, pairV_eq, pairV_eq]
    cases r <;> first | rfl | exact (hi_eq _).symm | exact (lo_eq _).symm
  case callcc cc nn =>
    simp only [exec, effects, holds_eq]
    split <;> (cases r <;> rfl)
  case retcc cc =>
    simp only [exec, effects, holds_eq]
    split <;> (cases r <;> rfl)
  case alu op src =>
    have hv := alu_val op x.reg.a (x.readOp src) x.reg.flags
    have e1 : (getReg x .a).toNat = x.reg.a.toNat := getReg_a_toNat x
    have e2 : (opV x src).toNat = (x.readOp src).toNat := by rw [opV_eq]; simp
    cases op
    case cp => cases r <;> rfl
    all_goals
      simp only [effects, e1, e2]
      rw [hv]
      cases r <;> rfl
  case cpl =>
    have e1 : (getReg x .a).toNat = x.reg.a.toNat := getReg_a_toNat x
    simp only [effects, e1]
    have : ofN (255 - x.reg.a.toNat) = (~~~x.reg.a).toUInt16 := by
      apply ofN_of_toNat; simp [UInt8.toNat_not]
    rw [this]
    cases r <;> rfl
  case neg =>
    have e1 : (getReg x .a).toNat = x.reg.a.toNat := getReg_a_toNat x
    simp only [effects, e1]
    rw [ofN_of_toNat _ _ (C02_neg x.reg.a x.reg.flags).1]
    cases r <;> rfl
  case djnz e =>
    have e1 : (getReg x .b).toNat = x.reg.b.toNat := by simp [getReg]
    simp only [effects, e1]
    have : ofN (subW 8 x.reg.b.toNat 1 0).r = (x.reg.b - 1).toUInt16 := by
      apply ofN_of_toNat
      have := x.reg.b.toNat_lt
      simp [subW, UInt8.toNat_sub]; omega
    rw [this]
    simp only [exec]
    split <;> (cases r <;> rfl)
  case inc8 l =>
    cases l with
    | mem m => exact frame_regs _ len x r (by simp [regsWritten, ofLoc])
    | reg q =>
      show getReg (((x.setFlags (Alu.inc (x.read8 (.reg q)) x.reg.flags).2).write8 (.reg q) (Alu.inc (x.read8 (.reg q)) x.reg.flags).1).setPC _) r = _
      rw [getReg_setPC, getReg_write8_reg, getReg_setFlags_fn]
      simp only [effects, putLoc, locV_reg_toNat]
      rw [inc_val _ x.reg.flags]
      rfl
  case dec8 l =>
    cases l with
    | mem m => exact frame_regs _ len x r (by simp [regsWritten, ofLoc])
    | reg q =>
      show getReg (((x.setFlags (Alu.dec (x.read8 (.reg q)) x.reg.flags).2).write8 (.reg q) (Alu.dec (x.read8 (.reg q)) x.reg.flags).1).setPC _) r = _
      rw [getReg_setPC, getReg_write8_reg, getReg_setFlags_fn]
      simp only [effects, putLoc, locV_reg_toNat]
      rw [dec_val _ x.reg.flags]
      rfl
  case rot op l =>
    cases l with
    | mem m => exact frame_regs _ len x r (by simp [regsWritten, ofLoc])
    | reg q =>
      show getReg (((x.setFlags (rotApply op (x.read8 (.reg q)) x.reg.flags).2).write8 (.reg q) (rotApply op (x.read8 (.reg q)) x.reg.flags).1).setPC _) r = _
      rw [getReg_setPC, getReg_write8_reg, getReg_setFlags_fn]
      simp only [effects, putLoc, locV_reg_toNat]
      rw [rot_val op _ x.reg.flags]
      rfl
  case set b l =>
    have hb : b.toNat < 8 := hd
    cases l with
    | mem m => exact frame_regs _ len x r (by simp [regsWritten, ofLoc])
    | reg q =>
      show getReg ((x.write8 (.reg q) (bitSet (x.read8 (.reg q)) b)).setPC _) r = _
      rw [getReg_setPC, getReg_write8_reg]
      simp only [effects, putLoc, locV_reg_toNat]
      rw [bitSet_val _ b hb]
      rfl
  case res b l =>
    have hb : b.toNat < 8 := hd
    cases l with
    | mem m => exact frame_regs _ len x r (by simp [regsWritten, ofLoc])
    | reg q =>
      show getReg ((x.write8 (.reg q) (bitReset (x.read8 (.reg q)) b)).setPC _) r = _
      rw [getReg_setPC, getReg_write8_reg]
      simp only [effects, putLoc, locV_reg_toNat]
      rw [bitReset_val _ b hb]
      rfl
  case add16 dst src =>
    show getReg { x with reg := { x.reg.set16 dst (Alu.add16 (x.reg.get16 dst) (x.reg.get16 src) x.reg.flags).1 with
        flags := (Alu.add16 (x.reg.get16 dst) (x.reg.get16 src) x.reg.flags).2, pc := _ } } r = _
    rw [getReg_set16f]
    simp only [effects, pairV_eq]
    rw [ofN_of_toNat16 _ _ (C02_add16 (x.reg.get16 dst) (x.reg.get16 src) x.reg.flags).1]
  case adc16 src =>
    show getReg { x with reg := { x.reg.set16 .hl (Alu.adc16 x.reg.getHL (x.reg.get16 src) x.reg.flags).1 with
        flags := (Alu.adc16 x.reg.getHL (x.reg.get16 src) x.reg.flags).2, pc := _ } } r = _
    rw [getReg_set16f]
    simp only [effects, pairV_eq]
    rw [ofN_of_toNat16 _ _ (C02_adc16 (x.reg.get16 .hl) (x.reg.get16 src) x.reg.flags).1]
    rfl
  case sbc16 src =>
    show getReg { x with reg := { x.reg.set16 .hl (Alu.sbc16 x.reg.getHL (x.reg.get16 src) x.reg.flags).1 with
        flags := (Alu.sbc16 x.reg.getHL (x.reg.get16 src) x.reg.flags).2, pc := _ } } r = _
    rw [getReg_set16f]
    simp only [effects, pairV_eq]
    rw [ofN_of_toNat16 _ _ (C02_sbc16 (x.reg.get16 .hl) (x.reg.get16 src) x.reg.flags).1]
    rfl
  case rlca =>
    simp only [effects, getReg_a_toNat]
    rw [ofN_of_toNat _ _ (C02_rot_acc x.reg.a x.reg.flags).1.1]
    cases r <;> rfl
  case rrca =>
    simp only [effects, getReg_a_toNat]
    rw [ofN_of_toNat _ _ (C02_rot_acc x.reg.a x.reg.flags).2.1.1]
    cases r <;> rfl
  case rla =>
    simp only [effects, getReg_a_toNat]
    rw [ofN_of_toNat _ _ (C02_rot_acc x.reg.a x.reg.flags).2.2.1.1]
    cases r <;> rfl
  case rra =>
    simp only [effects, getReg_a_toNat]
    rw [ofN_of_toNat _ _ (C02_rot_acc x.reg.a x.reg.flags).2.2.2.1]
    cases r <;> rfl
  case rld =>
    have em : (memV x (pairV x .hl)).toNat = (x.bus.readByte x.reg.getHL).toNat := by rw [pairV_eq]; simp [memV]; rfl
    simp only [effects, getReg_a_toNat, em]
    rw [ofN_of_toNat _ _ (C02_rld x.reg.a (x.bus.readByte x.reg.getHL) x.reg.flags).1]
    cases r <;> rfl
  case rrd =>
    have em : (memV x (pairV x .hl)).toNat = (x.bus.readByte x.reg.getHL).toNat := by rw [pairV_eq]; simp [memV]; rfl
    simp only [effects, getReg_a_toNat, em]
    rw [ofN_of_toNat _ _ (C02_rrd x.reg.a (x.bus.readByte x.reg.getHL) x.reg.flags).1]
    cases r <;> rfl
  case daa =>
    have hs : (daaTable x.reg.flags.n x.reg.flags.c (x.reg.a.toNat / 16) x.reg.flags.h (x.reg.a.toNat % 16)).isSome := by
      have := hd; simp only [defined, getReg_a_toNat] at this; exact this
    obtain ⟨⟨add, c'⟩, hv⟩ := Option.isSome_iff_exists.mp hs
    simp only [effects, getReg_a_toNat, hv]
    rw [ofN_of_toNat _ _ (C02_daa x.reg.a x.reg.flags add c' hv).1]
    cases r <;> rfl

/-! ### memory -/

theorem store_nil (b : Bus) : store [] b = b := rfl
theorem store_one (b : Bus) (a v : UInt16) : store [(a, v)] b = b.writeByte a v.toUInt8 := rfl
theorem store_two (b : Bus) (a v a' v' : UInt16) : store [(a, v), (a', v')] b = (b.writeByte a v.toUInt8).writeByte a' v'.toUInt8 := rfl

theorem lo_toUInt8 (w : UInt16) : (lo w).toUInt8 = loByte w := by rw [lo_eq, toUInt16_toUInt8]
theorem hi_toUInt8 (w : UInt16) : (hi w).toUInt8 = (w >>> 8).toUInt8 := by rw [hi_eq, toUInt16_toUInt8, shr8_eq_hiByte]

/-- a word store in the specification's vocabulary -/
theorem store_word (b : Bus) (a w : UInt16) : store [(a, lo w), (a + 1, hi w)] b = b.writeWord a w := by
  rw [store_two, lo_toUInt8, hi_toUInt8]; rfl

theorem write8_mem_bus (x : Arch) (m : MemRef) (v : UInt8) : (x.write8 (.mem m) v).bus = x.bus.writeByte (x.addrOf m) v := rfl
theorem write8_reg_bus (x : Arch) (q : R8) (v : UInt8) : (x.write8 (.reg q) v).bus = x.bus := rfl

set_option maxHeartbeats 1000000 in
theorem effects_mem (i : Instr) (len : UInt16) (x : Arch) (hd : defined i x) :
    (exec i len x).bus = store (effects i (x.reg.pc + len) x).mem x.bus := by
  cases i
  case ldir => exact absurd hd (by simp [defined])
  case lddr => exact absurd hd (by simp [defined])
  case cpir => exact absurd hd (by simp [defined])
  case cpdr => exact absurd hd (by simp [defined])
  case ld8 dst src =>
    cases dst with
    | reg q => rfl
    | mem m =>
      show x.bus.writeByte (x.addrOf m) (x.readOp src) = store [(addrV x m, opV x src)] x.bus
      rw [store_one, addrV_eq, opV_eq, toUInt16_toUInt8]
  case st16m nn src =>
    show x.bus.writeWord nn (x.reg.get16 src) = store [(nn, lo (pairV x src)), (nn + 1, hi (pairV x src))] x.bus
    rw [store_word, pairV_eq]
  case push p =>
    show x.bus.writeWord (x.reg.sp - 2) (x.reg.get16 p) = store (pushStores x.reg.sp (pairV x p)) x.bus
    rw [pushStores, store_word, pairV_eq]
  case call nn =>
    show x.bus.writeWord (x.reg.sp - 2) (x.reg.pc + len) = store (pushStores x.reg.sp (x.reg.pc + len)) x.bus
    rw [pushStores, store_word]
  case rst v =>
    show x.bus.writeWord (x.reg.sp - 2) (x.reg.pc + len) = store (pushStores x.reg.sp (x.reg.pc + len)) x.bus
    rw [pushStores, store_word]
  case callcc cc nn =>
    simp only [exec, effects, holds_eq]
    split
    · show x.bus.writeWord (x.reg.sp - 2) (x.reg.pc + len) = store (pushStores x.reg.sp (x.reg.pc + len)) x.bus
      rw [pushStores, store_word]
    · rfl
  case exSP p =>
    show x.bus.writeWord x.reg.sp (x.reg.get16 p) = store [(x.reg.sp, lo (pairV x p)), (x.reg.sp + 1, hi (pairV x p))] x.bus
    rw [store_word, pairV_eq]
  case ldi =>
    show x.bus.writeByte x.reg.getDE (x.bus.readByte x.reg.getHL) = store [(pairV x .de, memV x (pairV x .hl))] x.bus
    rw [store_one, pairV_eq, pairV_eq]; simp only [memV, toUInt16_toUInt8]; rfl
  case ldd =>
    show x.bus.writeByte x.reg.getDE (x.bus.readByte x.reg.getHL) = store [(pairV x .de, memV x (pairV x .hl))] x.bus
    rw [store_one, pairV_eq, pairV_eq]; simp only [memV, toUInt16_toUInt8]; rfl
  case inc8 l =>
    cases l with
    | reg q => rfl
    | mem m =>
      show (x.setFlags _).bus.writeByte ((x.setFlags _).addrOf m) (Alu.inc (x.read8 (.mem m)) x.reg.flags).1 = _
      rw [addrOf_setFlags]
      simp only [effects, putLoc, store_one, addrV_eq]
      have e : (locV x (.mem m)).toNat = (x.read8 (.mem m)).toNat := by rw [locV_eq]; simp
      rw [e, inc_val _ x.reg.flags, toUInt16_toUInt8]; rfl
  case dec8 l =>
    cases l with
    | reg q => rfl
    | mem m =>
      show (x.setFlags _).bus.writeByte ((x.setFlags _).addrOf m) (Alu.dec (x.read8 (.mem m)) x.reg.flags).1 = _
      rw [addrOf_setFlags]
      simp only [effects, putLoc, store_one, addrV_eq]
      have e : (locV x (.mem m)).toNat = (x.read8 (.mem m)).toNat := by rw [locV_eq]; simp
      rw [e, dec_val _ x.reg.flags, toUInt16_toUInt8]; rfl
  case rot op l =>
    cases l with
    | reg q => rfl
    | mem m =>
      show (x.setFlags _).bus.writeByte ((x.setFlags _).addrOf m) (rotApply op (x.read8 (.mem m)) x.reg.flags).1 = _
      rw [addrOf_setFlags]
      simp only [effects, putLoc, store_one, addrV_eq]
      have e : (locV x (.mem m)).toNat = (x.read8 (.mem m)).toNat := by rw [locV_eq]; simp
      rw [e, rot_val op _ x.reg.flags, toUInt16_toUInt8]; rfl
  case set b l =>
    have hb : b.toNat < 8 := hd
    cases l with
    | reg q => rfl
    | mem m =>
      show x.bus.writeByte (x.addrOf m) (bitSet (x.read8 (.mem m)) b) = _
      simp only [effects, putLoc, store_one, addrV_eq]
      have e : (locV x (.mem m)).toNat = (x.read8 (.mem m)).toNat := by rw [locV_eq]; simp
      rw [e, bitSet_val _ b hb, toUInt16_toUInt8]
  case res b l =>
    have hb : b.toNat < 8 := hd
    cases l with
    | reg q => rfl
    | mem m =>
      show x.bus.writeByte (x.addrOf m) (bitReset (x.read8 (.mem m)) b) = _
      simp only [effects, putLoc, store_one, addrV_eq]
      have e : (locV x (.mem m)).toNat = (x.read8 (.mem m)).toNat := by rw [locV_eq]; simp
      rw [e, bitReset_val _ b hb, toUInt16_toUInt8]
  case rld =>
    have em : (memV x (x.reg.get16 .hl)).toNat = (x.bus.readByte x.reg.getHL).toNat := by simp [memV]; rfl
    have e1 : (getReg x .a).toNat = x.reg.a.toNat := by simp [getReg]
    simp only [effects, store_one, pairV_eq, em, e1]
    rw [ofN_of_toNat _ _ (C02_rld x.reg.a (x.bus.readByte x.reg.getHL) x.reg.flags).2.1, toUInt16_toUInt8]; rfl
  case rrd =>
    have em : (memV x (x.reg.get16 .hl)).toNat = (x.bus.readByte x.reg.getHL).toNat := by simp [memV]; rfl
    have e1 : (getReg x .a).toNat = x.reg.a.toNat := by simp [getReg]
    simp only [effects, store_one, pairV_eq, em, e1]
    rw [ofN_of_toNat _ _ (C02_rrd x.reg.a (x.bus.readByte x.reg.getHL) x.reg.flags).2.1, toUInt16_toUInt8]; rfl
  case alu op src => cases op <;> rfl
  case daa =>
    simp only [effects]
    split <;> rfl
  case retcc cc =>
    simp only [exec, effects]
    split <;> split <;> rfl
  case jpcc cc nn => simp only [exec, effects]; split <;> rfl
  case jrcc cc e => simp only [exec, effects]; split <;> rfl
  case djnz e => simp only [exec, effects]; split <;> rfl
  case ld16 d nn => rfl
  case ld16m d nn => rfl
  case pop p => rfl
  case add16 d s2 => rfl
  case inc16 p => rfl
  case dec16 p => rfl
  all_goals rfl

end Z80
