/-
  Z80.Lemmas.Effects — bridges between the vocabulary of `Spec.Effects` (names, `/ 256`, `% 256`,
  `* 256 +`, comparison with 128) and the model's (`hiByte`, `loByte`, `mkWord`, `displace`).
-/
import Z80.Spec.Effects
import Z80.Lemmas.Word
import Z80.Lemmas.Pc
import Z80.Lemmas.Enum
namespace Z80
open Spec

theorem hi_eq (w : UInt16) : hi w = (hiByte w).toUInt16 := by
  rw [← shr8_eq_hiByte]
  apply UInt16.toNat_inj.mp
  have := w.toNat_lt
  simp [hi, UInt16.toNat_div, Nat.shiftRight_eq_div_pow]
  omega

theorem lo_eq (w : UInt16) : lo w = (loByte w).toUInt16 := by
  apply UInt16.toNat_inj.mp
  have := w.toNat_lt
  have e : ∀ n : Nat, n &&& 255 = n % 256 := fun n => Nat.and_two_pow_sub_one_eq_mod n 8
  simp [lo, loByte, UInt16.toNat_mod, e]

theorem word_eq (h l : UInt8) : word h.toUInt16 l.toUInt16 = mkWord h l := by
  apply UInt16.toNat_inj.mp
  have hh := h.toNat_lt; have hl := l.toNat_lt
  simp only [word, mkWord, UInt16.toNat_add, UInt16.toNat_mul, UInt16.toNat_or, UInt16.toNat_shiftLeft,
    UInt8.toNat_toUInt16]
  have e : h.toNat <<< (8 % 16) % 65536 ||| l.toNat = h.toNat * 256 + l.toNat := by
    have : h.toNat <<< (8 % 16) % 65536 = h.toNat * 256 := by
      simp [Nat.shiftLeft_eq]; omega
    rw [this]
    have := Nat.shiftLeft_add_eq_or_of_lt (a := h.toNat) (b := l.toNat) (i := 8) (by omega)
    simp [Nat.shiftLeft_eq] at this
    omega
  simp at e ⊢
  omega

theorem fByte_eq (f : Flags) : fByte f = f.toByte.toUInt16 := by
  cases f with
  | mk s z b5 h b3 p n c => cases s <;> cases z <;> cases b5 <;> cases h <;> cases b3 <;> cases p <;> cases n <;> cases c <;> decide

theorem pairV_eq (x : Arch) (p : R16) : pairV x p = x.reg.get16 p := by
  cases p
  case sp => rfl
  case af => show word _ (fByte _) = mkWord _ _; rw [fByte_eq]; exact word_eq _ _
  all_goals exact word_eq _ _

theorem sx_eq (d : UInt8) : sx d = sext d := by
  have h := forall_u8 (p := fun d => sx d == sext d) (by decide +kernel) d
  simpa using h

theorem addrV_eq (x : Arch) (m : MemRef) : addrV x m = x.addrOf m := by
  cases m with
  | idx i d =>
    cases i
    · show pairV x .ix + sx d = displace _ _; rw [displace_eq, sx_eq, pairV_eq]; rfl
    · show pairV x .iy + sx d = displace _ _; rw [displace_eq, sx_eq, pairV_eq]; rfl
  | hl => exact pairV_eq x .hl
  | bc => exact pairV_eq x .bc
  | de => exact pairV_eq x .de
  | abs nn => rfl

theorem wordAt_eq (x : Arch) (a : UInt16) : wordAt x a = x.bus.readWord a := word_eq _ _

theorem getReg_ofR8 (x : Arch) (r : R8) : getReg x (ofR8 r) = (x.reg.get8 r).toUInt16 := by cases r <;> rfl

theorem locV_eq (x : Arch) (l : Loc8) : locV x l = (x.read8 l).toUInt16 := by
  cases l with
  | reg r => exact getReg_ofR8 x r
  | mem m => show memV x (addrV x m) = _; rw [addrV_eq]; rfl

theorem opV_eq (x : Arch) (o : Op8) : opV x o = (x.readOp o).toUInt16 := by
  cases o with
  | loc l => exact locV_eq x l
  | imm n => rfl

theorem holds_eq (f : Flags) (cc : Cc) : holds f cc = condHolds f cc := by
  cases cc <;> simp [holds, condHolds]

/-- a byte whose numeric value is `k` is the 16-bit number `k` -/
theorem ofN_of_toNat (v : UInt8) (k : Nat) (h : v.toNat = k) : ofN k = v.toUInt16 := by
  subst h
  apply UInt16.toNat_inj.mp
  have := v.toNat_lt
  simp [ofN]

theorem ofN_of_toNat16 (v : UInt16) (k : Nat) (h : v.toNat = k) : ofN k = v := by
  subst h; simp [ofN]

theorem toUInt16_toUInt8 (v : UInt8) : v.toUInt16.toUInt8 = v := by
  apply UInt8.toNat_inj.mp; simp

end Z80
