/-
  Z80.Lemmas.Tables2 — further row-by-row facts (kept apart from Tables.lean so that each file
  re-checks in about a minute).
-/
import Z80.Lemmas.TableRows
namespace Z80

def lenOk (l : UInt16) : Bool := decide (1 ≤ l.toNat) && decide (l.toNat ≤ 4)

set_option maxRecDepth 100000 in
theorem len_base (b1 b2 : UInt8) : allBelow 256 (fun i => lenOk (decodeBase (UInt8.ofNat i) b1 b2).2) = true := rfl
set_option maxRecDepth 100000 in
theorem len_cb : allBelow 256 (fun i => lenOk (decodeCB (UInt8.ofNat i)).2) = true := rfl
set_option maxRecDepth 100000 in
theorem len_ed (b2 b3 : UInt8) : allBelow 256 (fun i => lenOk (decodeED (UInt8.ofNat i) b2 b3).2) = true := rfl
set_option maxRecDepth 100000 in
theorem len_idx (x : Idx) (b2 b3 : UInt8) : allBelow 256 (fun i => lenOk (decodeIdx x (UInt8.ofNat i) b2 b3).2) = true := by
  cases x <;> rfl
set_option maxRecDepth 100000 in
theorem len_idxcb (x : Idx) (d : UInt8) : allBelow 256 (fun i => lenOk (decodeIdxCB x d (UInt8.ofNat i)).2) = true := by
  cases x <;> rfl

theorem isRow_len (d : Decoded) (hr : IsRow d) : lenOk d.len = true := by
  unfold IsRow at hr
  obtain ⟨i, len, page, op⟩ := d
  simp only at hr ⊢
  cases page <;> simp only at hr
  · obtain ⟨_, b1, b2, e⟩ := hr
    have := row_of_table (p := fun o => lenOk (decodeBase o b1 b2).2) (len_base b1 b2) op; rw [← e] at this; exact this
  · have := row_of_table (p := fun o => lenOk (decodeCB o).2) len_cb op; rw [← hr] at this; exact this
  · obtain ⟨b2, b3, e⟩ := hr
    have := row_of_table (p := fun o => lenOk (decodeED o b2 b3).2) (len_ed b2 b3) op; rw [← e] at this; exact this
  · obtain ⟨b2, b3, e⟩ := hr
    have := row_of_table (p := fun o => lenOk (decodeIdx .ix o b2 b3).2) (len_idx .ix b2 b3) op; rw [← e] at this; exact this
  · obtain ⟨b2, b3, e⟩ := hr
    have := row_of_table (p := fun o => lenOk (decodeIdx .iy o b2 b3).2) (len_idx .iy b2 b3) op; rw [← e] at this; exact this
  · obtain ⟨dd, e⟩ := hr
    have := row_of_table (p := fun o => lenOk (decodeIdxCB .ix dd o).2) (len_idxcb .ix dd) op; rw [← e] at this; exact this
  · obtain ⟨dd, e⟩ := hr
    have := row_of_table (p := fun o => lenOk (decodeIdxCB .iy dd o).2) (len_idxcb .iy dd) op; rw [← e] at this; exact this

theorem decode_len (bus : Bus) (pc : UInt16) (first : UInt8) :
    1 ≤ (decode bus pc first).len.toNat ∧ (decode bus pc first).len.toNat ≤ 4 := by
  rcases decode_isRow bus pc first with h | h
  · have := isRow_len _ h
    simpa [lenOk] using this
  · rw [h.2]; decide

end Z80
