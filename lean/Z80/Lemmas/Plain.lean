/-
  Z80.Lemmas.Plain — a step with no request pending and no halt is just "fetch, decode, execute".
-/
import Z80.Model.Step
namespace Z80

/-- nothing pending, not halted -/
def Arch.quiet (a : Arch) : Prop := a.halt = false ∧ a.nmi = false ∧ a.int = none

theorem preDispatch_quiet (a : Arch) (h : a.quiet) : preDispatch a = a := by
  obtain ⟨h1, h2, h3⟩ := h
  unfold preDispatch wake takeNmi takeInt
  simp only [h1, h2, Bool.false_eq_true, ↓reduceIte]
  cases hi : a.iff1 <;> simp [h3] <;> (cases a; simp_all)

theorem stepArch_quiet (a : Arch) (h : a.quiet) :
    stepArch a = ((dispatch a).1, (dispatch a).2.1, some (dispatch a).2.2) := by
  have hn : (a.halt && !a.wakes) = false := by simp [h.1]
  simp only [stepArch, hn, Bool.false_eq_true, ↓reduceIte, preDispatch_quiet a h]

/-- the instruction executed by a quiet step is the one encoded at PC -/
theorem dispatch_quiet (a : Arch) (h : a.quiet) :
    (dispatch a).1 = { exec (decode a.bus a.reg.pc (a.bus.readByte a.reg.pc)).instr
                         (decode a.bus a.reg.pc (a.bus.readByte a.reg.pc)).len a with int := none } := by
  have hf : firstByte a = a.bus.readByte a.reg.pc := by simp [firstByte, h.2.2]
  have hl : ∀ d : Decoded, effLen d a.int = d.len := by
    intro d; rw [h.2.2]; unfold effLen; split
    · rename_i heq; simp at heq
    · rfl
  simp only [dispatch, hf, hl]

end Z80
