/-
  Z80.Lemmas.AluBridge — bridges from the machine-integer formulations of the model to natural
  number arithmetic (each a 256-case kernel enumeration or a BitVec library fact), so that the
  ALU theorems reduce to linear arithmetic.
-/
import Z80.Lemmas.AluCheck
namespace Z80

theorem sign8_eq (x : UInt8) : sign8 x = decide (128 ≤ x.toNat) := by
  have := forall_u8 (p := fun x => sign8 x == decide (128 ≤ x.toNat)) (by decide +kernel) x
  simpa using this

theorem bitGet7_eq (x : UInt8) : bitGet x 7 = decide (128 ≤ x.toNat) := by
  have := forall_u8 (p := fun x => bitGet x 7 == decide (128 ≤ x.toNat)) (by decide +kernel) x
  simpa using this

theorem bitGet0_eq (x : UInt8) : bitGet x 0 = decide (x.toNat % 2 = 1) := by
  have := forall_u8 (p := fun x => bitGet x 0 == decide (x.toNat % 2 = 1)) (by decide +kernel) x
  simpa using this

theorem toInt8_toInt (x : UInt8) : x.toInt8.toInt = (x.toNat : Int) - 256 * ((x.toNat / 128 : Nat) : Int) := by
  have h : x.toInt8.toInt = x.toBitVec.toInt := rfl
  rw [h, BitVec.toInt_eq_toNat_cond]
  have := x.toNat_lt
  simp only [UInt8.toNat_toBitVec]
  split <;> omega

theorem toInt16_toInt (x : UInt16) : x.toInt16.toInt = (x.toNat : Int) - 65536 * ((x.toNat / 32768 : Nat) : Int) := by
  have h : x.toInt16.toInt = x.toBitVec.toInt := rfl
  rw [h, BitVec.toInt_eq_toNat_cond]
  have := x.toNat_lt
  simp only [UInt16.toNat_toBitVec]
  split <;> omega

theorem sign16_eq (x : UInt16) : sign16 x = decide (32768 ≤ x.toNat) := by
  unfold sign16
  have h : (x.toInt16 < 0) ↔ x.toInt16.toInt < 0 := Int16.lt_iff_toInt_lt
  simp only [h, toInt16_toInt]
  have := x.toNat_lt
  congr 1
  apply propext
  constructor <;> intro <;> omega

theorem specbit (r k : Nat) : Spec.bit r k = decide (r / 2 ^ k % 2 = 1) := by
  unfold Spec.bit; rw [Nat.testBit_eq_decide_div_mod_eq]

theorem and15 (x : Nat) : x &&& 15 = x % 16 := Nat.and_two_pow_sub_one_eq_mod x 4
theorem and4095 (x : Nat) : x &&& 4095 = x % 4096 := Nat.and_two_pow_sub_one_eq_mod x 12

theorem u8_eq_zero (x : UInt8) : (x == 0) = decide (x.toNat = 0) := by
  have := forall_u8 (p := fun x => (x == 0) == decide (x.toNat = 0)) (by decide +kernel) x
  simpa using this

theorem u16_eq_zero (x : UInt16) : (x == 0) = decide (x.toNat = 0) := by
  by_cases h : x = 0
  · subst h; rfl
  · have : x.toNat ≠ 0 := fun hh => h (UInt16.toNat_inj.mp (by simpa using hh))
    simp [h, this]

theorem parity_eq (x : UInt8) : parityEven x = Spec.parity8 x.toNat := by
  have := forall_u8 (p := fun x => parityEven x == Spec.parity8 x.toNat) (by decide +kernel) x
  simpa using this

/-- S, Z and parity of a result byte in one statement -/
theorem szp_eq (r : UInt8) : sign8 r = Spec.bit r.toNat 7 ∧ (r == 0) = (r.toNat == 0) ∧ parityEven r = Spec.parity8 r.toNat := by
  have := forall_u8 (p := fun r => sign8 r == Spec.bit r.toNat 7 && ((r == 0) == (r.toNat == 0)) && parityEven r == Spec.parity8 r.toNat)
    (by decide +kernel) r
  simpa [and_assoc] using this

end Z80
