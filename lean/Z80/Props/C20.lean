/-
  C20 — Host-side memory utilities move exactly the requested bytes.
  For every bus (any size, any ROM window), every in-range pair start <= end, every file
  content and every origin at which the file fits.  The file system is a parameter: `none` =
  the file cannot be opened.
-/
import Z80.Model.Basic
namespace Z80
open Bus

private theorem clearLoop_size (m : Array UInt8) (s n : Nat) : (clearLoop m s n).size = m.size := by
  induction n generalizing m s with
  | zero => rfl
  | succ n ih => simp [clearLoop, ih]

private theorem clearLoop_get (m : Array UInt8) (s n x : Nat) :
    (clearLoop m s n)[x]? = if s ≤ x ∧ x < s + n ∧ x < m.size then some 0 else m[x]? := by
  induction n generalizing m s with
  | zero => simp [clearLoop]; intro h1 h2; omega
  | succ n ih =>
    simp only [clearLoop]
    rw [ih, Array.getElem?_setIfInBounds]
    simp only [Array.size_setIfInBounds]
    by_cases h1 : s = x
    · subst h1
      by_cases h2 : s < m.size <;> simp [h2] <;> omega
    · by_cases h3 : s + 1 ≤ x ∧ x < s + 1 + n ∧ x < m.size
      · have : s ≤ x ∧ x < s + (n + 1) ∧ x < m.size := by omega
        simp [h3, this]
      · have : ¬ (s ≤ x ∧ x < s + (n + 1) ∧ x < m.size) := by omega
        simp [h3, this, h1]

private theorem copyLoop_size (m : Array UInt8) (o : Nat) (l : List UInt8) : (copyLoop m o l).size = m.size := by
  induction l generalizing m o with
  | nil => rfl
  | cons x xs ih => simp [copyLoop, ih]

private theorem copyLoop_get (m : Array UInt8) (o : Nat) (l : List UInt8) (x : Nat) (hfit : o + l.length ≤ m.size) :
    (copyLoop m o l)[x]? = if o ≤ x ∧ x < o + l.length then l[x - o]? else m[x]? := by
  induction l generalizing m o with
  | nil => simp [copyLoop]; intro h1 h2; omega
  | cons y ys ih =>
    simp only [copyLoop, List.length_cons] at *
    rw [ih _ _ (by simp; omega), Array.getElem?_setIfInBounds]
    by_cases h1 : o = x
    · subst h1
      have : ¬ (o + 1 ≤ o ∧ o < o + 1 + ys.length) := by omega
      have h2 : o < m.size := by omega
      simp [this, h2]
    · by_cases h3 : o + 1 ≤ x ∧ x < o + 1 + ys.length
      · have h4 : o ≤ x ∧ x < o + (ys.length + 1) := by omega
        have h5 : x - o = (x - (o + 1)) + 1 := by omega
        simp [h3, h4, h5]
      · have h4 : ¬ (o ≤ x ∧ x < o + (ys.length + 1)) := by omega
        simp [h3, h4, h1]

/-- reading a slice returns exactly the bytes stored at start..end inclusive -/
theorem C20_read_slice (b : Bus) (s e : Nat) (h1 : s ≤ e) (h2 : e < b.mem.size) :
    ∃ l, b.readMemSlice s e = some l ∧ l.length = e - s + 1 ∧
      ∀ i, i < l.length → l[i]? = b.mem[s + i]? := by
  refine ⟨(b.mem.extract s (e + 1)).toList, by simp [readMemSlice, h1, h2], by simp; omega, ?_⟩
  intro i hi
  simp at hi
  rw [Array.getElem?_toList, Array.getElem?_extract]
  simp
  intro h; omega

/-- clearing a slice zeroes exactly those bytes, changes no other byte, nor the size or the ROM declaration -/
theorem C20_clear_slice (b : Bus) (s e : Nat) (h1 : s ≤ e) (h2 : e < b.mem.size) :
    ∃ b', b.clearMemSlice s e = some b' ∧ b'.mem.size = b.mem.size ∧ b'.rom = b.rom ∧
      ∀ x, b'.mem[x]? = if s ≤ x ∧ x ≤ e then some 0 else b.mem[x]? := by
  refine ⟨{ b with mem := clearLoop b.mem s (e + 1 - s) }, by simp [clearMemSlice, h1, h2], clearLoop_size _ _ _, rfl, ?_⟩
  intro x
  show (clearLoop b.mem s (e + 1 - s))[x]? = _
  rw [clearLoop_get]
  by_cases h : s ≤ x ∧ x ≤ e
  · have : s ≤ x ∧ x < s + (e + 1 - s) ∧ x < b.mem.size := by omega
    simp [h, this]
  · have : ¬ (s ≤ x ∧ x < s + (e + 1 - s) ∧ x < b.mem.size) := by omega
    simp [h, this]

/-- in byte terms: inside the slice reads give 0, outside they are unchanged -/
theorem C20_clear_slice_bytes (b : Bus) (s e : Nat) (h1 : s ≤ e) (h2 : e < b.mem.size) (a : UInt16) :
    ∃ b', b.clearMemSlice s e = some b' ∧
      b'.readByte a = if s ≤ a.toNat ∧ a.toNat ≤ e then 0 else b.readByte a := by
  obtain ⟨b', hb, _, _, hx⟩ := C20_clear_slice b s e h1 h2
  refine ⟨b', hb, ?_⟩
  unfold readByte
  rw [Array.getD_eq_getD_getElem?, Array.getD_eq_getD_getElem?, hx]
  split <;> simp

/-- loading a file that fits copies its bytes to consecutive addresses from the origin, reports its
    length and leaves every other byte unchanged -/
theorem C20_load_bin (b : Bus) (bytes : List UInt8) (org : UInt16) (hfit : org.toNat + bytes.length ≤ b.mem.size)
    (horg : org.toNat < b.mem.size) :
    ∃ b', b.loadBin (some bytes) org = some (.ok (b', bytes.length)) ∧ b'.mem.size = b.mem.size ∧ b'.rom = b.rom ∧
      ∀ x, b'.mem[x]? = if org.toNat ≤ x ∧ x < org.toNat + bytes.length then bytes[x - org.toNat]? else b.mem[x]? := by
  refine ⟨{ b with mem := copyLoop b.mem org.toNat bytes }, ?_, copyLoop_size _ _ _, rfl, ?_⟩
  · simp [loadBin, hfit]; omega
  · intro x; exact copyLoop_get _ _ _ _ hfit

/-- a missing file is an error value, not an abort, and changes nothing (no new bus is produced) -/
theorem C20_load_missing (b : Bus) (org : UInt16) (horg : org.toNat < b.mem.size) :
    b.loadBin none org = some (.error ()) := by
  simp [loadBin]; omega

/-- non-vacuity -/
example : (Bus.new 7).readMemSlice 2 5 = some [0, 0, 0, 0] ∧
    ((Bus.new 3).loadBin (some [1, 2, 3]) 1).isSome = true := by decide

end Z80
