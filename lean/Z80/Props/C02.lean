/-
  C02 — Documented flag results are exact for every operand and incoming flag value.
  Each theorem: for ALL operands and ALL incoming flag records `f`, the model core (the code's own
  formulation: nibble comparisons, i8/i16 overflow arithmetic, shifts and masks) produces the
  result and the documented flags S Z H P/V N C that `Z80.Spec` defines in integer arithmetic,
  and leaves the two unused bits as they were.  Flags documented as unaffected are stated so.
-/
import Z80.Lemmas.AluBridge
import Z80.Model.Exec
namespace Z80

/-! ### 8-bit arithmetic -/

theorem C02_add (a n : UInt8) (f : Flags) : Agrees (Spec.addW 8 a.toNat n.toNat 0) (Alu.add a n f) f := by
  have ha := a.toNat_lt; have hn := n.toNat_lt
  unfold Agrees Spec.addW Alu.add addOvf8
  simp only [sign8_eq, toInt8_toInt, u8_eq_zero]
  simp [UInt8.toNat_add, UInt8.lt_iff_toNat_lt, UInt16.lt_iff_toNat_lt, and15, specbit]
  omega

theorem C02_adc (a n : UInt8) (f : Flags) :
    Agrees (Spec.addW 8 a.toNat n.toNat (Spec.b2n f.c)) (Alu.adc a n f) f := by
  have ha := a.toNat_lt; have hn := n.toNat_lt
  unfold Agrees Spec.addW Alu.adc addOvf8 cbit Spec.b2n
  simp only [sign8_eq, toInt8_toInt, u8_eq_zero]
  cases hc : f.c <;>
    simp [UInt8.toNat_add, UInt8.lt_iff_toNat_lt, UInt16.lt_iff_toNat_lt, and15, specbit] <;> omega

theorem C02_sub (a n : UInt8) (f : Flags) : Agrees (Spec.subW 8 a.toNat n.toNat 0) (Alu.sub a n f) f := by
  have ha := a.toNat_lt; have hn := n.toNat_lt
  unfold Agrees Spec.subW Alu.sub subOvf8
  simp only [sign8_eq, toInt8_toInt, u8_eq_zero]
  simp [UInt8.toNat_sub, UInt8.lt_iff_toNat_lt, UInt16.lt_iff_toNat_lt, and15, specbit]
  omega

theorem C02_sbc (a n : UInt8) (f : Flags) :
    Agrees (Spec.subW 8 a.toNat n.toNat (Spec.b2n f.c)) (Alu.sbc a n f) f := by
  have ha := a.toNat_lt; have hn := n.toNat_lt
  unfold Agrees Spec.subW Alu.sbc subOvf8 cbit Spec.b2n
  simp only [sign8_eq, toInt8_toInt, u8_eq_zero]
  cases hc : f.c <;>
    simp [UInt8.toNat_sub, UInt8.toNat_add, UInt8.lt_iff_toNat_lt, UInt16.lt_iff_toNat_lt, and15, specbit] <;> omega

/-- CP: the flags of SUB, the accumulator unchanged -/
theorem C02_cp (a n : UInt8) (f : Flags) : (Alu.cp a n f).1 = a ∧ (Alu.cp a n f).2 = (Alu.sub a n f).2 := ⟨rfl, rfl⟩

/-! ### logic -/

theorem C02_and (a n : UInt8) (f : Flags) : Agrees (Spec.logic (a.toNat &&& n.toNat) true) (Alu.and a n f) f := by
  obtain ⟨h1, h2, h3⟩ := szp_eq (a &&& n)
  unfold Agrees Spec.logic Alu.and
  simp only [h1, h2, h3, UInt8.toNat_and]
  simp

theorem C02_or (a n : UInt8) (f : Flags) : Agrees (Spec.logic (a.toNat ||| n.toNat) false) (Alu.or a n f) f := by
  obtain ⟨h1, h2, h3⟩ := szp_eq (a ||| n)
  unfold Agrees Spec.logic Alu.or
  simp only [h1, h2, h3, UInt8.toNat_or]
  simp

theorem C02_xor (a n : UInt8) (f : Flags) : Agrees (Spec.logic (a.toNat ^^^ n.toNat) false) (Alu.xor a n f) f := by
  obtain ⟨h1, h2, h3⟩ := szp_eq (a ^^^ n)
  unfold Agrees Spec.logic Alu.xor
  simp only [h1, h2, h3, UInt8.toNat_xor]
  simp

/-! ### INC / DEC / NEG : C is unaffected by INC and DEC -/

theorem C02_inc (n : UInt8) (f : Flags) :
    let o := Spec.addW 8 n.toNat 1 0
    let r := Alu.inc n f
    r.1.toNat = o.r ∧ (r.2.s = true ↔ o.s = true) ∧ (r.2.z = true ↔ o.z = true) ∧ (r.2.h = true ↔ o.h = true) ∧
    (r.2.p = true ↔ o.pv = true) ∧ r.2.n = false ∧ r.2.c = f.c ∧ r.2.b5 = f.b5 ∧ r.2.b3 = f.b3 := by
  have hn := n.toNat_lt
  simp only [Spec.addW, Alu.inc, sign8_eq, u8_eq_zero]
  simp [UInt8.toNat_add, UInt8.lt_iff_toNat_lt, and15, specbit, ← UInt8.toNat_inj]
  omega

theorem C02_dec (n : UInt8) (f : Flags) :
    let o := Spec.subW 8 n.toNat 1 0
    let r := Alu.dec n f
    r.1.toNat = o.r ∧ (r.2.s = true ↔ o.s = true) ∧ (r.2.z = true ↔ o.z = true) ∧ (r.2.h = true ↔ o.h = true) ∧
    (r.2.p = true ↔ o.pv = true) ∧ r.2.n = true ∧ r.2.c = f.c ∧ r.2.b5 = f.b5 ∧ r.2.b3 = f.b3 := by
  have hn := n.toNat_lt
  simp only [Spec.subW, Alu.dec, sign8_eq, u8_eq_zero]
  simp [UInt8.toNat_sub, UInt8.lt_iff_toNat_lt, and15, specbit, ← UInt8.toNat_inj]
  omega

/-- NEG = 0 - A -/
theorem C02_neg (a : UInt8) (f : Flags) : Agrees (Spec.subW 8 0 a.toNat 0) (Alu.neg a f) f := by
  have h : ∀ a : UInt8, ((Alu.neg a {}).1.toNat == (Spec.subW 8 0 a.toNat 0).r && (Alu.neg a {}).2.s == (Spec.subW 8 0 a.toNat 0).s &&
      (Alu.neg a {}).2.z == (Spec.subW 8 0 a.toNat 0).z && (Alu.neg a {}).2.h == (Spec.subW 8 0 a.toNat 0).h &&
      (Alu.neg a {}).2.p == (Spec.subW 8 0 a.toNat 0).pv && (Alu.neg a {}).2.n == (Spec.subW 8 0 a.toNat 0).n &&
      (Alu.neg a {}).2.c == (Spec.subW 8 0 a.toNat 0).c) = true :=
    forall_u8 (by decide +kernel)
  exact Agrees.of_agrees (res := Alu.neg a f) (h a) rfl rfl

/-! ### 16-bit ADD / ADC / SBC : all 2^33 (HL, ss, carry) — symbolic, no enumeration -/

/-- ADD HL,ss: H from bit 11, C from bit 15, N = 0; S Z P/V unaffected -/
theorem C02_add16 (h n : UInt16) (f : Flags) :
    let o := Spec.addW 16 h.toNat n.toNat 0
    let r := Alu.add16 h n f
    r.1.toNat = o.r ∧ (r.2.h = true ↔ o.h = true) ∧ (r.2.c = true ↔ o.c = true) ∧ r.2.n = false ∧
    r.2.s = f.s ∧ r.2.z = f.z ∧ r.2.p = f.p ∧ r.2.b5 = f.b5 ∧ r.2.b3 = f.b3 := by
  have hh := h.toNat_lt; have hn := n.toNat_lt
  simp only [Spec.addW, Alu.add16]
  simp [UInt16.toNat_add, UInt16.lt_iff_toNat_lt, UInt32.lt_iff_toNat_lt, and4095]
  omega

def Agrees16 (o : Spec.Out) (res : UInt16 × Flags) (f : Flags) : Prop :=
  res.1.toNat = o.r ∧ (res.2.s = true ↔ o.s = true) ∧ (res.2.z = true ↔ o.z = true) ∧ (res.2.h = true ↔ o.h = true) ∧
  (res.2.p = true ↔ o.pv = true) ∧ (res.2.n = true ↔ o.n = true) ∧ (res.2.c = true ↔ o.c = true) ∧
  res.2.b5 = f.b5 ∧ res.2.b3 = f.b3

theorem C02_adc16 (h n : UInt16) (f : Flags) :
    Agrees16 (Spec.addW 16 h.toNat n.toNat (Spec.b2n f.c)) (Alu.adc16 h n f) f := by
  have hh := h.toNat_lt; have hn := n.toNat_lt
  unfold Agrees16 Spec.addW Alu.adc16 addOvf16 cbit16 Spec.b2n
  simp only [sign16_eq, toInt16_toInt, u16_eq_zero]
  cases hc : f.c <;>
    simp [UInt16.toNat_add, UInt16.lt_iff_toNat_lt, UInt32.lt_iff_toNat_lt, and4095, specbit] <;> omega

theorem C02_sbc16 (h n : UInt16) (f : Flags) :
    Agrees16 (Spec.subW 16 h.toNat n.toNat (Spec.b2n f.c)) (Alu.sbc16 h n f) f := by
  have hh := h.toNat_lt; have hn := n.toNat_lt
  unfold Agrees16 Spec.subW Alu.sbc16 subOvf16 cbit16 Spec.b2n
  simp only [sign16_eq, toInt16_toInt, u16_eq_zero]
  cases hc : f.c <;>
    simp [UInt16.toNat_sub, UInt16.toNat_add, UInt16.lt_iff_toNat_lt, UInt32.lt_iff_toNat_lt, and4095, specbit] <;> omega

/-! ### rotates and shifts: every byte, both carry-in values (kernel enumeration, 512 cases each) -/

/-- `core n f` against `spec n cin` = (result, carry-out): S Z P from the result, H = N = 0 -/
def rotOk (core : UInt8 → Flags → UInt8 × Flags) (spec : Nat → Nat → Nat × Bool) (n : UInt8) : Bool :=
  agrees (Spec.shifted (spec n.toNat 0).1 (spec n.toNat 0).2) (core n { c := false }) &&
  agrees (Spec.shifted (spec n.toNat 1).1 (spec n.toNat 1).2) (core n { c := true })

theorem rot_tables :
    table1 (rotOk Alu.rlc (fun n _ => Spec.rlc n)) = true ∧ table1 (rotOk Alu.rrc (fun n _ => Spec.rrc n)) = true ∧
    table1 (rotOk Alu.rl Spec.rl) = true ∧ table1 (rotOk Alu.rr Spec.rr) = true ∧
    table1 (rotOk Alu.sla (fun n _ => Spec.sla n)) = true ∧ table1 (rotOk Alu.sra (fun n _ => Spec.sra n)) = true ∧
    table1 (rotOk Alu.sll (fun n _ => Spec.sll n)) = true ∧ table1 (rotOk Alu.srl (fun n _ => Spec.srl n)) = true := by
  refine ⟨?_, ?_, ?_, ?_, ?_, ?_, ?_, ?_⟩ <;> decide +kernel

/-- a core that reads nothing of `f` but the carry and passes the unused bits through -/
def CarryOnly (core : UInt8 → Flags → UInt8 × Flags) : Prop :=
  ∀ n f, (core n f).1 = (core n { c := f.c }).1 ∧ (core n f).2.s = (core n { c := f.c }).2.s ∧
    (core n f).2.z = (core n { c := f.c }).2.z ∧ (core n f).2.h = (core n { c := f.c }).2.h ∧
    (core n f).2.p = (core n { c := f.c }).2.p ∧ (core n f).2.n = (core n { c := f.c }).2.n ∧
    (core n f).2.c = (core n { c := f.c }).2.c ∧ (core n f).2.b5 = f.b5 ∧ (core n f).2.b3 = f.b3

theorem rot_lift (core : UInt8 → Flags → UInt8 × Flags) (spec : Nat → Nat → Nat × Bool) (hd : CarryOnly core)
    (ht : table1 (rotOk core spec) = true) (n : UInt8) (f : Flags) :
    Agrees (Spec.shifted (spec n.toNat (Spec.b2n f.c)).1 (spec n.toNat (Spec.b2n f.c)).2) (core n f) f := by
  obtain ⟨d1, d2, d3, d4, d5, d6, d7, d8, d9⟩ := hd n f
  have := table1_sound ht n
  simp only [rotOk, Bool.and_eq_true, agrees_iff] at this
  unfold Agrees
  rw [d1, d2, d3, d4, d5, d6, d7]
  cases hc : f.c
  · obtain ⟨⟨e1, e2, e3, e4, e5, e6, e7⟩, _⟩ := this
    exact ⟨e1, by rw [e2]; exact Iff.rfl, by rw [e3]; exact Iff.rfl, by rw [e4]; exact Iff.rfl, by rw [e5]; exact Iff.rfl,
      by rw [e6]; exact Iff.rfl, by rw [e7]; exact Iff.rfl, d8, d9⟩
  · obtain ⟨_, ⟨e1, e2, e3, e4, e5, e6, e7⟩⟩ := this
    exact ⟨e1, by rw [e2]; exact Iff.rfl, by rw [e3]; exact Iff.rfl, by rw [e4]; exact Iff.rfl, by rw [e5]; exact Iff.rfl,
      by rw [e6]; exact Iff.rfl, by rw [e7]; exact Iff.rfl, d8, d9⟩

theorem C02_rlc (n : UInt8) (f : Flags) : Agrees (Spec.shifted (Spec.rlc n.toNat).1 (Spec.rlc n.toNat).2) (Alu.rlc n f) f :=
  rot_lift Alu.rlc (fun n _ => Spec.rlc n) (fun _ _ => ⟨rfl, rfl, rfl, rfl, rfl, rfl, rfl, rfl, rfl⟩) rot_tables.1 n f
theorem C02_rrc (n : UInt8) (f : Flags) : Agrees (Spec.shifted (Spec.rrc n.toNat).1 (Spec.rrc n.toNat).2) (Alu.rrc n f) f :=
  rot_lift Alu.rrc (fun n _ => Spec.rrc n) (fun _ _ => ⟨rfl, rfl, rfl, rfl, rfl, rfl, rfl, rfl, rfl⟩) rot_tables.2.1 n f
theorem C02_rl (n : UInt8) (f : Flags) :
    Agrees (Spec.shifted (Spec.rl n.toNat (Spec.b2n f.c)).1 (Spec.rl n.toNat (Spec.b2n f.c)).2) (Alu.rl n f) f :=
  rot_lift Alu.rl Spec.rl (fun _ _ => ⟨rfl, rfl, rfl, rfl, rfl, rfl, rfl, rfl, rfl⟩) rot_tables.2.2.1 n f
theorem C02_rr (n : UInt8) (f : Flags) :
    Agrees (Spec.shifted (Spec.rr n.toNat (Spec.b2n f.c)).1 (Spec.rr n.toNat (Spec.b2n f.c)).2) (Alu.rr n f) f :=
  rot_lift Alu.rr Spec.rr (fun _ _ => ⟨rfl, rfl, rfl, rfl, rfl, rfl, rfl, rfl, rfl⟩) rot_tables.2.2.2.1 n f
theorem C02_sla (n : UInt8) (f : Flags) : Agrees (Spec.shifted (Spec.sla n.toNat).1 (Spec.sla n.toNat).2) (Alu.sla n f) f :=
  rot_lift Alu.sla (fun n _ => Spec.sla n) (fun _ _ => ⟨rfl, rfl, rfl, rfl, rfl, rfl, rfl, rfl, rfl⟩) rot_tables.2.2.2.2.1 n f
theorem C02_sra (n : UInt8) (f : Flags) : Agrees (Spec.shifted (Spec.sra n.toNat).1 (Spec.sra n.toNat).2) (Alu.sra n f) f :=
  rot_lift Alu.sra (fun n _ => Spec.sra n) (fun _ _ => ⟨rfl, rfl, rfl, rfl, rfl, rfl, rfl, rfl, rfl⟩) rot_tables.2.2.2.2.2.1 n f
theorem C02_sll (n : UInt8) (f : Flags) : Agrees (Spec.shifted (Spec.sll n.toNat).1 (Spec.sll n.toNat).2) (Alu.sll n f) f :=
  rot_lift Alu.sll (fun n _ => Spec.sll n) (fun _ _ => ⟨rfl, rfl, rfl, rfl, rfl, rfl, rfl, rfl, rfl⟩) rot_tables.2.2.2.2.2.2.1 n f
theorem C02_srl (n : UInt8) (f : Flags) : Agrees (Spec.shifted (Spec.srl n.toNat).1 (Spec.srl n.toNat).2) (Alu.srl n f) f :=
  rot_lift Alu.srl (fun n _ => Spec.srl n) (fun _ _ => ⟨rfl, rfl, rfl, rfl, rfl, rfl, rfl, rfl, rfl⟩) rot_tables.2.2.2.2.2.2.2 n f

/-! ### accumulator rotates: only H, N (reset) and C change; S Z P/V are unaffected -/

theorem C02_rot_acc (a : UInt8) (f : Flags) :
    ((Alu.rlca a f).1.toNat = (Spec.rlc a.toNat).1 ∧ (Alu.rlca a f).2 = { f with h := false, n := false, c := (Spec.rlc a.toNat).2 }) ∧
    ((Alu.rrca a f).1.toNat = (Spec.rrc a.toNat).1 ∧ (Alu.rrca a f).2 = { f with h := false, n := false, c := (Spec.rrc a.toNat).2 }) ∧
    ((Alu.rla a f).1.toNat = (Spec.rl a.toNat (Spec.b2n f.c)).1 ∧
      (Alu.rla a f).2 = { f with h := false, n := false, c := (Spec.rl a.toNat (Spec.b2n f.c)).2 }) ∧
    ((Alu.rra a f).1.toNat = (Spec.rr a.toNat (Spec.b2n f.c)).1 ∧
      (Alu.rra a f).2 = { f with h := false, n := false, c := (Spec.rr a.toNat (Spec.b2n f.c)).2 }) := by
  have h := forall_u8 (p := fun a =>
      (Alu.rlca a {}).1.toNat == (Spec.rlc a.toNat).1 && (Alu.rlca a {}).2.c == (Spec.rlc a.toNat).2 &&
      (Alu.rrca a {}).1.toNat == (Spec.rrc a.toNat).1 && (Alu.rrca a {}).2.c == (Spec.rrc a.toNat).2 &&
      (Alu.rla a {}).1.toNat == (Spec.rl a.toNat 0).1 && (Alu.rla a { c := true }).1.toNat == (Spec.rl a.toNat 1).1 &&
      (Alu.rla a {}).2.c == (Spec.rl a.toNat 0).2 &&
      (Alu.rra a {}).1.toNat == (Spec.rr a.toNat 0).1 && (Alu.rra a { c := true }).1.toNat == (Spec.rr a.toNat 1).1 &&
      (Alu.rra a {}).2.c == (Spec.rr a.toNat 0).2) (by decide +kernel) a
  simp only [Bool.and_eq_true, beq_iff_eq] at h
  obtain ⟨⟨⟨⟨⟨⟨⟨⟨⟨h1, h2⟩, h3⟩, h4⟩, h5⟩, h6⟩, h7⟩, h8⟩, h9⟩, h10⟩ := h
  refine ⟨⟨h1, ?_⟩, ⟨h3, ?_⟩, ⟨?_, ?_⟩, ⟨?_, ?_⟩⟩
  · show ({ f with c := (Alu.rlca a {}).2.c, h := false, n := false } : Flags) = _
    rw [h2]
  · show ({ f with c := (Alu.rrca a {}).2.c, h := false, n := false } : Flags) = _
    rw [h4]
  · cases hc : f.c
    · have : (Alu.rla a f).1 = (Alu.rla a {}).1 := by simp [Alu.rla, hc]
      rw [this]; exact h5
    · have : (Alu.rla a f).1 = (Alu.rla a { c := true }).1 := by simp [Alu.rla, hc]
      rw [this]; exact h6
  · show ({ f with c := (Alu.rla a {}).2.c, h := false, n := false } : Flags) = _
    rw [h7]; cases f.c <;> rfl
  · cases hc : f.c
    · have : (Alu.rra a f).1 = (Alu.rra a {}).1 := by simp [Alu.rra, hc]
      rw [this]; exact h8
    · have : (Alu.rra a f).1 = (Alu.rra a { c := true }).1 := by simp [Alu.rra, hc]
      rw [this]; exact h9
  · show ({ f with c := (Alu.rra a {}).2.c, h := false, n := false } : Flags) = _
    rw [h10]; cases f.c <;> rfl

/-! ### BIT, CPL, CCF, SCF -/

/-- BIT b: Z = complement of the tested bit, H = 1, N = 0, C unaffected (S and P/V are undefined by the
    documentation; this implementation keeps them) -/
theorem C02_bit (b v : UInt8) (f : Flags) (hb : b.toNat < 8) :
    (Alu.bit b v f).z = !(Spec.bit v.toNat b.toNat) ∧ (Alu.bit b v f).h = true ∧ (Alu.bit b v f).n = false ∧
    (Alu.bit b v f).c = f.c ∧ (Alu.bit b v f).b5 = f.b5 ∧ (Alu.bit b v f).b3 = f.b3 := by
  refine ⟨?_, rfl, rfl, rfl, rfl, rfl⟩
  have h := table2_sound (p := fun b v => decide (8 ≤ b.toNat) || (bitGet v b == Spec.bit v.toNat b.toNat)) (by decide +kernel) b v
  have : decide (8 ≤ b.toNat) = false := by simpa using hb
  rw [this, Bool.false_or, beq_iff_eq] at h
  show (!bitGet v b) = _
  rw [h]

theorem C02_cpl_ccf_scf (len : UInt16) (a : Arch) :
    ((exec .cpl len a).reg.a.toNat = 255 - a.reg.a.toNat ∧ (exec .cpl len a).reg.flags = { a.reg.flags with h := true, n := true }) ∧
    (exec .ccf len a).reg.flags = { a.reg.flags with h := a.reg.flags.c, c := !a.reg.flags.c, n := false } ∧
    (exec .scf len a).reg.flags = { a.reg.flags with c := true, h := false, n := false } := by
  refine ⟨⟨?_, rfl⟩, rfl, rfl⟩
  show (~~~a.reg.a).toNat = _
  have := forall_u8 (p := fun x => (~~~x).toNat == 255 - x.toNat) (by decide +kernel) a.reg.a
  simpa using this

/-! ### RLD / RRD: nibble moves for all 65,536 (A, (HL)) pairs -/

theorem C02_rld (a m : UInt8) (f : Flags) :
    (Alu.rld a m f).1.1.toNat = (Spec.rld a.toNat m.toNat).1 ∧ (Alu.rld a m f).1.2.toNat = (Spec.rld a.toNat m.toNat).2 ∧
    (Alu.rld a m f).2 = { f with s := Spec.bit (Spec.rld a.toNat m.toNat).1 7, z := (Spec.rld a.toNat m.toNat).1 == 0,
                                 h := false, p := Spec.parity8 (Spec.rld a.toNat m.toNat).1, n := false } := by
  have hb : ∀ x : UInt8, (x >>> 4).toNat = x.toNat / 16 ∧ (x <<< 4).toNat = x.toNat % 16 * 16 ∧
      (x &&& 0xF0).toNat = x.toNat / 16 * 16 ∧ (x &&& 0x0F).toNat = x.toNat % 16 := by
    intro x
    have := forall_u8 (p := fun x => (x >>> 4).toNat == x.toNat / 16 && (x <<< 4).toNat == x.toNat % 16 * 16 &&
      (x &&& 0xF0).toNat == x.toNat / 16 * 16 && (x &&& 0x0F).toNat == x.toNat % 16) (by decide +kernel) x
    simpa [and_assoc] using this
  have hor : ∀ x y : UInt8, x.toNat % 16 = 0 → y.toNat < 16 → (x ||| y).toNat = x.toNat + y.toNat := by
    intro x y
    have := table2_sound (p := fun x y => !(x.toNat % 16 == 0) || !decide (y.toNat < 16) || ((x ||| y).toNat == x.toNat + y.toNat))
      (by decide +kernel) x y
    intro h1 h2
    simpa [h1, h2] using this
  obtain ⟨a1, a2, a3, a4⟩ := hb a
  obtain ⟨m1, m2, m3, m4⟩ := hb m
  have e1 : ((a &&& (0xF0 : UInt8)) ||| (m >>> 4)).toNat = (Spec.rld a.toNat m.toNat).1 := by
    rw [hor _ _ (by rw [a3]; omega) (by rw [m1]; have := m.toNat_lt; omega), a3, m1]; rfl
  have e2 : ((m <<< 4) ||| (a &&& (0x0F : UInt8))).toNat = (Spec.rld a.toNat m.toNat).2 := by
    rw [hor _ _ (by rw [m2]; omega) (by rw [a4]; omega), m2, a4]; rfl
  obtain ⟨s1, s2, s3⟩ := szp_eq ((a &&& (0xF0 : UInt8)) ||| (m >>> 4))
  refine ⟨e1, e2, ?_⟩
  show ({ f with s := sign8 ((a &&& (0xF0 : UInt8)) ||| (m >>> 4)), z := ((a &&& (0xF0 : UInt8)) ||| (m >>> 4)) == 0,
                 h := false, p := parityEven ((a &&& (0xF0 : UInt8)) ||| (m >>> 4)), n := false } : Flags) = _
  rw [s1, s2, s3, e1]

theorem C02_rrd (a m : UInt8) (f : Flags) :
    (Alu.rrd a m f).1.1.toNat = (Spec.rrd a.toNat m.toNat).1 ∧ (Alu.rrd a m f).1.2.toNat = (Spec.rrd a.toNat m.toNat).2 ∧
    (Alu.rrd a m f).2 = { f with s := Spec.bit (Spec.rrd a.toNat m.toNat).1 7, z := (Spec.rrd a.toNat m.toNat).1 == 0,
                                 h := false, p := Spec.parity8 (Spec.rrd a.toNat m.toNat).1, n := false } := by
  have hb : ∀ x : UInt8, (x >>> 4).toNat = x.toNat / 16 ∧ (x <<< 4).toNat = x.toNat % 16 * 16 ∧
      (x &&& 0xF0).toNat = x.toNat / 16 * 16 ∧ (x &&& 0x0F).toNat = x.toNat % 16 := by
    intro x
    have := forall_u8 (p := fun x => (x >>> 4).toNat == x.toNat / 16 && (x <<< 4).toNat == x.toNat % 16 * 16 &&
      (x &&& 0xF0).toNat == x.toNat / 16 * 16 && (x &&& 0x0F).toNat == x.toNat % 16) (by decide +kernel) x
    simpa [and_assoc] using this
  have hor : ∀ x y : UInt8, x.toNat % 16 = 0 → y.toNat < 16 → (x ||| y).toNat = x.toNat + y.toNat := by
    intro x y
    have := table2_sound (p := fun x y => !(x.toNat % 16 == 0) || !decide (y.toNat < 16) || ((x ||| y).toNat == x.toNat + y.toNat))
      (by decide +kernel) x y
    intro h1 h2
    simpa [h1, h2] using this
  obtain ⟨a1, a2, a3, a4⟩ := hb a
  obtain ⟨m1, m2, m3, m4⟩ := hb m
  obtain ⟨x1, x2, x3, x4⟩ := hb (a &&& (0x0F : UInt8))
  have e1 : ((a &&& (0xF0 : UInt8)) ||| (m &&& (0x0F : UInt8))).toNat = (Spec.rrd a.toNat m.toNat).1 := by
    rw [hor _ _ (by rw [a3]; omega) (by rw [m4]; omega), a3, m4]; rfl
  have e2 : (((a &&& (0x0F : UInt8)) <<< 4) ||| (m >>> 4)).toNat = (Spec.rrd a.toNat m.toNat).2 := by
    rw [hor _ _ (by rw [x2]; omega) (by rw [m1]; have := m.toNat_lt; omega), x2, a4, m1]
    show a.toNat % 16 % 16 * 16 + m.toNat / 16 = a.toNat % 16 * 16 + m.toNat / 16
    omega
  obtain ⟨s1, s2, s3⟩ := szp_eq ((a &&& (0xF0 : UInt8)) ||| (m &&& (0x0F : UInt8)))
  refine ⟨e1, e2, ?_⟩
  show ({ f with s := sign8 ((a &&& (0xF0 : UInt8)) ||| (m &&& (0x0F : UInt8))),
                 z := ((a &&& (0xF0 : UInt8)) ||| (m &&& (0x0F : UInt8))) == 0, h := false,
                 p := parityEven ((a &&& (0xF0 : UInt8)) ||| (m &&& (0x0F : UInt8))), n := false } : Flags) = _
  rw [s1, s2, s3, e1]

/-! ### DAA: the manual's table, every A and every (N, C, H) -/

def daaRowOk (a : UInt8) (n c h : Bool) : Bool :=
  match Spec.daaTable n c (a.toNat / 16) h (a.toNat % 16) with
  | none => true
  | some (add, c') =>
    let r := Alu.daa a { n := n, c := c, h := h }
    r.1.toNat == (a.toNat + add) % 256 && r.2.c == c' && r.2.n == n &&
    r.2.s == Spec.bit r.1.toNat 7 && r.2.z == (r.1.toNat == 0) && r.2.p == Spec.parity8 r.1.toNat

theorem daa_table : table1 (fun a =>
    daaRowOk a false false false && daaRowOk a false false true && daaRowOk a false true false && daaRowOk a false true true &&
    daaRowOk a true false false && daaRowOk a true false true && daaRowOk a true true false && daaRowOk a true true true) = true := by
  decide +kernel

/-- whenever (N, C, high digit, H, low digit) is a row of the manual's DAA table — i.e. A holds the
    result of a BCD add or subtract — the accumulator is corrected by the number the table gives, C is
    the table's carry, S Z P/V reflect the result, N is unaffected -/
theorem C02_daa (a : UInt8) (f : Flags) (add : Nat) (c' : Bool)
    (h : Spec.daaTable f.n f.c (a.toNat / 16) f.h (a.toNat % 16) = some (add, c')) :
    let r := Alu.daa a f
    r.1.toNat = (a.toNat + add) % 256 ∧ r.2.c = c' ∧ r.2.n = f.n ∧ r.2.s = Spec.bit r.1.toNat 7 ∧
    r.2.z = (r.1.toNat == 0) ∧ r.2.p = Spec.parity8 r.1.toNat ∧ r.2.b5 = f.b5 ∧ r.2.b3 = f.b3 := by
  have ht := table1_sound daa_table a
  simp only [Bool.and_eq_true] at ht
  have key : daaRowOk a f.n f.c f.h = true := by
    obtain ⟨⟨⟨⟨⟨⟨⟨t1, t2⟩, t3⟩, t4⟩, t5⟩, t6⟩, t7⟩, t8⟩ := ht
    cases f.n <;> cases f.c <;> cases f.h <;> assumption
  unfold daaRowOk at key
  rw [h] at key
  simp only [Bool.and_eq_true, beq_iff_eq] at key
  obtain ⟨⟨⟨⟨⟨k1, k2⟩, k3⟩, k4⟩, k5⟩, k6⟩ := key
  have d : ∀ g : Flags, g.n = f.n → g.c = f.c → g.h = f.h →
      (Alu.daa a g).1 = (Alu.daa a f).1 ∧ (Alu.daa a g).2.c = (Alu.daa a f).2.c ∧ (Alu.daa a g).2.n = (Alu.daa a f).2.n ∧
      (Alu.daa a g).2.s = (Alu.daa a f).2.s ∧ (Alu.daa a g).2.z = (Alu.daa a f).2.z ∧ (Alu.daa a g).2.p = (Alu.daa a f).2.p := by
    intro g g1 g2 g3
    simp [Alu.daa, g1, g2, g3]
  obtain ⟨d1, d2, d3, d4, d5, d6⟩ := d { n := f.n, c := f.c, h := f.h } rfl rfl rfl
  rw [d1, d2, d3, d4, d5, d6] at *
  exact ⟨k1, k2, k3, k4, k5, k6, rfl, rfl⟩

/-! ### block transfer / search, LD A,I / LD A,R -/

/-- LDI/LDD: H = N = 0, P/V = (BC - 1 != 0); S Z C unaffected -/
theorem C02_ldi_flags (bc' : UInt16) (f : Flags) :
    Alu.ldiFlags bc' f = { f with h := false, n := false, p := decide (bc'.toNat ≠ 0) } := by
  unfold Alu.ldiFlags
  have : (bc' != 0) = decide (bc'.toNat ≠ 0) := by
    have := u16_eq_zero bc'
    simp only [bne, this]; simp
  rw [this]

/-- CPI/CPD: S Z H from A - (HL) (no carry in), P/V = (BC - 1 != 0), N = 1, C unaffected -/
theorem C02_cpi_flags (a m : UInt8) (bc' : UInt16) (f : Flags) :
    let o := Spec.subW 8 a.toNat m.toNat 0
    let r := Alu.cpiFlags a m bc' f
    (r.s = true ↔ o.s = true) ∧ (r.z = true ↔ o.z = true) ∧ (r.h = true ↔ o.h = true) ∧
    (r.p = true ↔ bc'.toNat ≠ 0) ∧ r.n = true ∧ r.c = f.c ∧ r.b5 = f.b5 ∧ r.b3 = f.b3 := by
  have ha := a.toNat_lt; have hm := m.toNat_lt
  simp only [Spec.subW, Alu.cpiFlags, sign8_eq]
  simp [UInt8.toNat_sub, UInt8.lt_iff_toNat_lt, and15, specbit, ← UInt8.toNat_inj, ← UInt16.toNat_inj]
  omega

/-- LD A,I / LD A,R: S Z from the value, H = N = 0, P/V = IFF2, C unaffected -/
theorem C02_ld_a_ir (v : UInt8) (iff2 : Bool) (f : Flags) :
    Alu.ldAIFlags v iff2 f = { f with s := Spec.bit v.toNat 7, z := v.toNat == 0, h := false, p := iff2, n := false } := by
  obtain ⟨s1, s2, _⟩ := szp_eq v
  unfold Alu.ldAIFlags; rw [s1, s2]

/-! ### routing: which core an instruction uses (per-opcode operand routing is C01's) -/

theorem C02_routing (len : UInt16) (a : Arch) (op : AluOp) (src : Op8) (l : Loc8) (rop : RotOp) (b : UInt8) (r : R16) :
    (exec (.alu op src) len a).reg.flags = (aluApply op a.reg.a (a.readOp src) a.reg.flags).2 ∧
    (exec (.inc8 l) len a).reg.flags = (Alu.inc (a.read8 l) a.reg.flags).2 ∧
    (exec (.dec8 l) len a).reg.flags = (Alu.dec (a.read8 l) a.reg.flags).2 ∧
    (exec (.rot rop l) len a).reg.flags = (rotApply rop (a.read8 l) a.reg.flags).2 ∧
    (exec (.bit b l) len a).reg.flags = Alu.bit b (a.read8 l) a.reg.flags ∧
    (exec .daa len a).reg.flags = (Alu.daa a.reg.a a.reg.flags).2 ∧
    (exec .neg len a).reg.flags = (Alu.neg a.reg.a a.reg.flags).2 ∧
    (exec (.adc16 r) len a).reg.flags = (Alu.adc16 a.reg.getHL (a.reg.get16 r) a.reg.flags).2 ∧
    (exec (.sbc16 r) len a).reg.flags = (Alu.sbc16 a.reg.getHL (a.reg.get16 r) a.reg.flags).2 := by
  refine ⟨rfl, ?_, ?_, ?_, rfl, rfl, rfl, ?_, ?_⟩
  · simp only [exec]; cases l with
    | reg x => cases x <;> rfl
    | mem m => rfl
  · simp only [exec]; cases l with
    | reg x => cases x <;> rfl
    | mem m => rfl
  · simp only [exec]; cases l with
    | reg x => cases x <;> rfl
    | mem m => rfl
  · simp only [exec]
  · simp only [exec]

/-- non-vacuity: 0x7F + 0x00 + carry overflows (the case the pinned code got wrong) -/
example : (Alu.adc 0x7F 0x00 { c := true }).2.p = true ∧ (Spec.addW 8 0x7F 0 1).pv = true ∧
    Spec.daaTable false false 9 false 10 = some (0x66, true) := by decide

end Z80
