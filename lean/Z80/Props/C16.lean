/-
  C16 — Disassembly text identifies the bytes and operation the interpreter executes.
  The templates of the disassembler (`dasmBase`, `dasmCB`; holes are symbolic) against the text
  generated from the instruction the *interpreter's decoder* returns for the same byte
  (`Spec.mnemonic (decodeBase op ..)`): one kernel-checked comparison per opcode covers every operand
  byte, register-pair value and address.  IN A,(n) / OUT (n),A (0xDB, 0xD3) are recognised by the
  disassembler but reported as unimplemented I/O by the interpreter; they are left out.
-/
import Z80.Spec.Mnemonic
import Z80.Lemmas.Pc
namespace Z80

/-- the text expected for base opcode `op`: hex column (opcode byte + `k` operand bytes), mnemonic -/
def expectedText (op b1 b2 : UInt8) (k : Nat) : Option String :=
  (Spec.mnemonic (decodeBase op b1 b2).1).map fun m => Spec.showPieces (Spec.hexColumn op k ++ [.lit " "] ++ m)

/-- row check: unrecognised, or I/O, or the template is opcode hex + (all | none of) the operand
    bytes in memory order + the mnemonic of what the interpreter executes -/
def rowOk (op b1 b2 : UInt8) : Bool :=
  let t := dasmBase.getD op.toNat []
  t.isEmpty || op == 0xDB || op == 0xD3 ||
    expectedText op b1 b2 ((decodeBase op b1 b2).2.toNat - 1) == some (Spec.showPieces t) ||
    expectedText op b1 b2 0 == some (Spec.showPieces t)

/-! operand-independence: the mnemonic (with symbolic holes) and the length do not depend on the
    operand bytes, so the string comparison can be made once per opcode on closed terms -/

def MemRef.erase : MemRef → MemRef | .idx i _ => .idx i 0 | .abs _ => .abs 0 | m => m
def Loc8.erase : Loc8 → Loc8 | .reg r => .reg r | .mem m => .mem m.erase
def Op8.erase : Op8 → Op8 | .loc l => .loc l.erase | .imm _ => .imm 0

/-- the instruction with every immediate operand zeroed -/
def eraseI : Instr → Instr
  | .ld8 d s => .ld8 d.erase s.erase
  | .ld16 d _ => .ld16 d 0 | .ld16m d _ => .ld16m d 0 | .st16m _ s => .st16m 0 s
  | .alu op s => .alu op s.erase
  | .inc8 l => .inc8 l.erase | .dec8 l => .dec8 l.erase
  | .rot op l => .rot op l.erase | .bit b l => .bit b l.erase | .set b l => .set b l.erase | .res b l => .res b l.erase
  | .jp _ => .jp 0 | .jpcc cc _ => .jpcc cc 0 | .jr _ => .jr 0 | .jrcc cc _ => .jrcc cc 0 | .djnz _ => .djnz 0
  | .call _ => .call 0 | .callcc cc _ => .callcc cc 0
  | i => i

theorem loc_erase (l : Loc8) : Spec.loc l.erase = Spec.loc l := by
  cases l with
  | reg r => rfl
  | mem m => cases m <;> rfl

theorem mnemonic_erase (i : Instr) : Spec.mnemonic (eraseI i) = Spec.mnemonic i := by
  cases i <;> try rfl
  case ld8 d s =>
    cases s with
    | loc l => simp only [eraseI, Op8.erase, Spec.mnemonic, loc_erase]
    | imm n =>
      cases d with
      | reg r => rfl
      | mem m => cases m <;> rfl
  case alu op s =>
    cases s with
    | loc l => simp only [eraseI, Op8.erase, Spec.mnemonic, loc_erase]
    | imm n => rfl
  case inc8 l => simp only [eraseI, Spec.mnemonic, loc_erase]
  case dec8 l => simp only [eraseI, Spec.mnemonic, loc_erase]

set_option maxRecDepth 1000000 in
/-- erasing the operands of what the decoder returns gives the same thing for every operand bytes -/
theorem decode_erase_table (b1 b2 : UInt8) :
    allBelow 256 (fun i => decide (eraseI (decodeBase (UInt8.ofNat i) b1 b2).1 = eraseI (decodeBase (UInt8.ofNat i) 0 0).1) &&
      (decodeBase (UInt8.ofNat i) b1 b2).2 == (decodeBase (UInt8.ofNat i) 0 0).2) = true := rfl

theorem decode_erase (op b1 b2 : UInt8) :
    eraseI (decodeBase op b1 b2).1 = eraseI (decodeBase op 0 0).1 ∧ (decodeBase op b1 b2).2 = (decodeBase op 0 0).2 := by
  have := allBelow_sound (decode_erase_table b1 b2) op.toNat op.toNat_lt
  simpa using this

set_option maxRecDepth 1000000 in
theorem template_table : allBelow 256 (fun i => rowOk (UInt8.ofNat i) 0 0) = true := by decide +kernel

/-- every recognised base opcode: the text starts with the hexadecimal of the opcode byte, shows
    operand bytes only in memory order, and its mnemonic and operands are those of the instruction
    the interpreter executes for those bytes — for every operand bytes b1 b2 -/
theorem C16_base (op b1 b2 : UInt8) : rowOk op b1 b2 = true := by
  have h0 : rowOk op 0 0 = true := by
    have := allBelow_sound template_table op.toNat op.toNat_lt
    simpa using this
  obtain ⟨e1, e2⟩ := decode_erase op b1 b2
  have hm : Spec.mnemonic (decodeBase op b1 b2).1 = Spec.mnemonic (decodeBase op 0 0).1 := by
    rw [← mnemonic_erase, e1, mnemonic_erase]
  unfold rowOk expectedText at *
  rw [hm, e2]; exact h0

set_option maxRecDepth 1000000 in
/-- every CB-prefixed opcode: the table entry is the operation and operand the interpreter executes -/
theorem C16_cb (op : UInt8) : Spec.mnemonicCB (decodeCB op).1 = some (dasmCB.getD op.toNat "") := by
  have h : allBelow 256 (fun i => Spec.mnemonicCB (decodeCB (UInt8.ofNat i)).1 == some (dasmCB.getD i "")) = true := by
    decide +kernel
  have := allBelow_sound h op.toNat op.toNat_lt
  simpa using this

/-- the holes are filled with the bytes actually in memory, the current pair value, and the
    relative target `address + 2 + sext e` -/
theorem C16_holes (a : Arch) (address : UInt16) :
    renderPiece a address .b1 = hex2 (a.bus.readByte (address + 1)) ∧
    renderPiece a address .b2 = hex2 (a.bus.readByte (address + 2)) ∧
    renderPiece a address .w1 = hex4 (a.bus.readWord (address + 1)) ∧
    (∀ r, renderPiece a address (.pair r) = hex4 (a.reg.get16 r)) ∧
    renderPiece a address .rel = hex4 (address + 2 + sext (a.bus.readByte (address + 1))) := by
  refine ⟨rfl, rfl, rfl, fun _ => rfl, ?_⟩
  show hex4 (dasmRel _ _) = _
  rw [dasmRel_eq]

/-- the CB text starts with `CB` and the second opcode byte actually in memory -/
theorem C16_cb_prefix (a : Arch) (address : UInt16) (h : a.bus.readByte address = 0xCB) :
    (dasm a address).1 = "CB" ++ hex2 (a.bus.readByte (address + 1)) ++ " " ++ dasmCB.getD (a.bus.readByte (address + 1)).toNat "" := by
  simp [dasm, h]

/-- the symbolic mnemonic (text after the hex column) of a base opcode -/
def mnemonicText (op : UInt8) : String :=
  match Spec.mnemonic (decodeBase op 0 0).1 with
  | some m => Spec.showPieces m
  | none => ""

set_option maxRecDepth 1000000 in
/-- two different recognised opcodes never have the same mnemonic text: their templates differ in
    the literal part or in which register pair / operand fills a hole (so the rendered texts differ
    whenever the registers and operands hold distinct values) -/
theorem C16_distinct_base :
    allBelow 256 (fun i => allBelow 256 (fun j =>
      i == j || mnemonicText (UInt8.ofNat i) == "" || mnemonicText (UInt8.ofNat j) == "" ||
      mnemonicText (UInt8.ofNat i) != mnemonicText (UInt8.ofNat j))) = true := by
  decide +kernel

set_option maxRecDepth 1000000 in
theorem C16_distinct_cb :
    allBelow 256 (fun i => allBelow 256 (fun j => i == j || dasmCB.getD i "" != dasmCB.getD j "")) = true := by
  decide +kernel

/-- the text is a function of the memory contents and of the register pairs the templates name, and of nothing
    else: not of PC (the listing of an address does not depend on where the CPU currently is), the alternate set,
    the control state or a pending request -/
theorem C16_state_independent (a a' : Arch) (address : UInt16) (hb : a'.bus = a.bus)
    (hr : ∀ r, a'.reg.get16 r = a.reg.get16 r) : dasm a' address = dasm a address := by
  have hp : ∀ p, renderPiece a' address p = renderPiece a address p := by
    intro p; cases p <;> simp [renderPiece, hb, hr]
  have hf : renderPiece a' address = renderPiece a address := funext hp
  simp only [dasm, render, hb, hf]

theorem C16_pc_independent (a : Arch) (address pc : UInt16) : dasm (a.setPC pc) address = dasm a address :=
  C16_state_independent a (a.setPC pc) address rfl (fun r => by cases r <;> rfl)

theorem C16_request_independent (a : Arch) (address : UInt16) (i : Option UInt8) (n : Bool) :
    dasm { a with int := i, nmi := n } address = dasm a address :=
  C16_state_independent a _ address rfl (fun _ => rfl)

/-- non-vacuity -/
example : Spec.showPieces (dasmBase.getD 0x36 []) = "36 {b1} LD (${HL}),{b1}" ∧ rowOk 0x36 7 9 = true ∧
    mnemonicText 0x56 = "LD D,(${HL})" := by decide +kernel

end Z80
