/-
  C09 — Register-pair and flag-byte views are consistent and lossless.
  All statements are for every register file `r`, every 16-bit value `v`, every flag byte.
-/
import Z80.Lemmas.Word
import Z80.Lemmas.Enum
import Z80.Lemmas.Bus
import Z80.Model.Exec
namespace Z80

/-! ### flag byte <-> eight flags: a bijection with S Z H P/V N C at bits 7 6 4 2 1 0 -/

theorem C09_flags_toByte_ofByte (b : UInt8) : (Flags.ofByte b).toByte = b := by
  have h : ∀ b : UInt8, ((Flags.ofByte b).toByte == b) = true :=
    forall_u8 (p := fun b => (Flags.ofByte b).toByte == b) (by decide +kernel)
  simpa using h b

theorem C09_flags_ofByte_toByte (f : Flags) : Flags.ofByte f.toByte = f := by
  obtain ⟨s, z, b5, h, b3, p, n, c⟩ := f
  cases s <;> cases z <;> cases b5 <;> cases h <;> cases b3 <;> cases p <;> cases n <;> cases c <;> decide

/-- S, Z, H, P/V, N, C (and the two unused bits) sit at bits 7, 6, 4, 2, 1, 0 (5, 3) -/
theorem C09_flag_bits (f : Flags) :
    bitGet f.toByte 7 = f.s ∧ bitGet f.toByte 6 = f.z ∧ bitGet f.toByte 5 = f.b5 ∧ bitGet f.toByte 4 = f.h ∧
    bitGet f.toByte 3 = f.b3 ∧ bitGet f.toByte 2 = f.p ∧ bitGet f.toByte 1 = f.n ∧ bitGet f.toByte 0 = f.c := by
  obtain ⟨s, z, b5, h, b3, p, n, c⟩ := f
  cases s <;> cases z <;> cases b5 <;> cases h <;> cases b3 <;> cases p <;> cases n <;> cases c <;> decide

/-! ### pairs -/

theorem C09_bc (r : Regs) (v : UInt16) :
    (r.setBC v).getBC = v ∧ (r.setBC v).b = hiByte v ∧ (r.setBC v).c = loByte v ∧
    (r.setBC v) = { r with b := hiByte v, c := loByte v } :=
  ⟨mkWord_hi_lo v, rfl, rfl, rfl⟩

theorem C09_de (r : Regs) (v : UInt16) :
    (r.setDE v).getDE = v ∧ (r.setDE v).d = hiByte v ∧ (r.setDE v).e = loByte v ∧
    (r.setDE v) = { r with d := hiByte v, e := loByte v } :=
  ⟨mkWord_hi_lo v, rfl, rfl, rfl⟩

theorem C09_hl (r : Regs) (v : UInt16) :
    (r.setHL v).getHL = v ∧ (r.setHL v).h = hiByte v ∧ (r.setHL v).l = loByte v ∧
    (r.setHL v) = { r with h := hiByte v, l := loByte v } :=
  ⟨mkWord_hi_lo v, rfl, rfl, rfl⟩

theorem C09_ix (r : Regs) (v : UInt16) :
    (r.setIX v).getIX = v ∧ (r.setIX v).ixh = hiByte v ∧ (r.setIX v).ixl = loByte v ∧
    (r.setIX v) = { r with ixh := hiByte v, ixl := loByte v } :=
  ⟨mkWord_hi_lo v, rfl, rfl, rfl⟩

theorem C09_iy (r : Regs) (v : UInt16) :
    (r.setIY v).getIY = v ∧ (r.setIY v).iyh = hiByte v ∧ (r.setIY v).iyl = loByte v ∧
    (r.setIY v) = { r with iyh := hiByte v, iyl := loByte v } :=
  ⟨mkWord_hi_lo v, rfl, rfl, rfl⟩

theorem C09_af (r : Regs) (v : UInt16) :
    (r.setAF v).getAF = v ∧ (r.setAF v).a = hiByte v ∧ (r.setAF v).flags.toByte = loByte v ∧
    (r.setAF v) = { r with a := hiByte v, flags := Flags.ofByte (loByte v) } := by
  refine ⟨?_, rfl, C09_flags_toByte_ofByte _, rfl⟩
  show mkWord (hiByte v) (Flags.ofByte (loByte v)).toByte = v
  rw [C09_flags_toByte_ofByte, mkWord_hi_lo]

/-- reading a pair is exactly `high << 8 | low` of the two halves; setting what was read changes nothing -/
theorem C09_get_halves (r : Regs) :
    r.getBC = (r.b.toUInt16 <<< 8) ||| r.c.toUInt16 ∧ r.getDE = (r.d.toUInt16 <<< 8) ||| r.e.toUInt16 ∧
    r.getHL = (r.h.toUInt16 <<< 8) ||| r.l.toUInt16 ∧ r.getIX = (r.ixh.toUInt16 <<< 8) ||| r.ixl.toUInt16 ∧
    r.getIY = (r.iyh.toUInt16 <<< 8) ||| r.iyl.toUInt16 ∧ r.getAF = (r.a.toUInt16 <<< 8) ||| r.flags.toByte.toUInt16 :=
  ⟨rfl, rfl, rfl, rfl, rfl, rfl⟩

theorem C09_set_get (r : Regs) :
    r.setBC r.getBC = r ∧ r.setDE r.getDE = r ∧ r.setHL r.getHL = r ∧ r.setIX r.getIX = r ∧ r.setIY r.getIY = r ∧
    r.setAF r.getAF = r := by
  simp only [Regs.setBC, Regs.getBC, Regs.setDE, Regs.getDE, Regs.setHL, Regs.getHL, Regs.setIX, Regs.getIX,
    Regs.setIY, Regs.getIY, Regs.setAF, Regs.getAF, hiByte_mkWord, loByte_mkWord, C09_flags_ofByte_toByte, and_self]

/-! ### AF transport through the instructions -/

/-- EX AF,AF' swaps A and all eight flag bits with the alternate set, and nothing else but PC -/
theorem C09_ex_af (a : Arch) (len : UInt16) :
    (exec .exAF len a).reg.a = a.alt.a ∧ (exec .exAF len a).reg.flags = a.alt.flags ∧
    (exec .exAF len a).alt.a = a.reg.a ∧ (exec .exAF len a).alt.flags = a.reg.flags ∧
    (exec .exAF len a).reg = { a.reg with a := a.alt.a, flags := a.alt.flags, pc := a.reg.pc + len } ∧
    (exec .exAF len a).alt = { a.alt with a := a.reg.a, flags := a.reg.flags } ∧
    (exec .exAF len a).bus = a.bus := by
  simp [exec, Regs.setAF, Regs.getAF, hiByte_mkWord, loByte_mkWord, C09_flags_ofByte_toByte]

/-- EXX swaps BC, DE, HL with their alternates exactly -/
theorem C09_exx (a : Arch) (len : UInt16) :
    (exec .exx len a).reg = { a.reg with b := a.alt.b, c := a.alt.c, d := a.alt.d, e := a.alt.e, h := a.alt.h, l := a.alt.l,
                                          pc := a.reg.pc + len } ∧
    (exec .exx len a).alt = { a.alt with b := a.reg.b, c := a.reg.c, d := a.reg.d, e := a.reg.e, h := a.reg.h, l := a.reg.l } := by
  simp [exec, Regs.setBC, Regs.getBC, Regs.setDE, Regs.getDE, Regs.setHL, Regs.getHL, hiByte_mkWord, loByte_mkWord]

private theorem sub2_add1 (sp : UInt16) : sp - 2 + 1 = sp - 1 := by
  apply UInt16.eq_of_toBitVec_eq; simp; bv_omega

/-- PUSH AF stores F (all eight bits) at SP-2 and A at SP-1; POP AF reloads exactly them.
    Hypothesis: the two stack bytes are writable (inside memory, outside ROM). -/
theorem C09_push_pop_af (a : Arch) (l1 l2 : UInt16)
    (h0 : a.bus.writable (a.reg.sp - 2)) (h1 : a.bus.writable (a.reg.sp - 1)) :
    let a1 := exec (.push .af) l1 a
    let a2 := exec (.pop .af) l2 a1
    a1.bus.readByte (a.reg.sp - 2) = a.reg.flags.toByte ∧ a1.bus.readByte (a.reg.sp - 1) = a.reg.a ∧
    a2.reg.a = a.reg.a ∧ a2.reg.flags = a.reg.flags ∧ a2.reg.sp = a.reg.sp := by
  have hne : a.reg.sp - 2 ≠ a.reg.sp - 2 + 1 := by
    intro e; have := congrArg UInt16.toNat e; simp [UInt16.toNat_add] at this; omega
  have hw1 : a.bus.writable (a.reg.sp - 2 + 1) := by rw [sub2_add1]; exact h1
  have e0 : (a.bus.writeWord (a.reg.sp - 2) a.reg.getAF).readByte (a.reg.sp - 2) = a.reg.flags.toByte := by
    unfold Bus.writeWord
    rw [Bus.readByte_writeByte_other _ _ _ _ hne, Bus.readByte_writeByte_same _ _ _ h0]
    simp [Regs.getAF, loByte_mkWord]
  have e1 : (a.bus.writeWord (a.reg.sp - 2) a.reg.getAF).readByte (a.reg.sp - 2 + 1) = a.reg.a := by
    unfold Bus.writeWord
    rw [Bus.readByte_writeByte_same]
    · rw [shr8_eq_hiByte]; simp [Regs.getAF, hiByte_mkWord]
    · exact ⟨by simpa using hw1.1, by simpa using hw1.2⟩
  simp only [exec, Arch.pushWord, Arch.popWord, Arch.setPC, Regs.get16, Regs.set16, Regs.setAF, Bus.readWord]
  refine ⟨e0, ?_, ?_, ?_, ?_⟩
  · rw [← sub2_add1]; exact e1
  · show hiByte (mkWord _ _) = _
    rw [hiByte_mkWord]; exact e1
  · show Flags.ofByte (loByte (mkWord _ _)) = _
    rw [loByte_mkWord, e0, C09_flags_ofByte_toByte]
  · show a.reg.sp - 2 + 2 = a.reg.sp
    apply UInt16.eq_of_toBitVec_eq; simp

/-- non-vacuity: a concrete register file, all views agree -/
example : ({ b := 0x12, c := 0x34 } : Regs).getBC = 0x1234 ∧ (({} : Regs).setAF 0xA5D7).flags.toByte = 0xD7 ∧
    (({} : Regs).setAF 0xA5FF).flags = ⟨true, true, true, true, true, true, true, true⟩ := by decide

end Z80
