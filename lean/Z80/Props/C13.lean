/-
  C13 — NMI is always taken, saves and clears the enable state; RETN restores it.
  For every architectural state: any IFF1/IFF2, any mode, maskable request pending or not,
  halted or not (`wake` moves PC past a HALT first).
-/
import Z80.Lemmas.Ctl
namespace Z80

/-- a non-maskable request is serviced at the start of the next step whatever IFF1, the mode and a
    simultaneous maskable request are: PC := 0x0066 with the interrupted PC pushed, IFF2 := IFF1,
    IFF1 := 0, both latches cleared (the maskable request is not serviced) -/
theorem C13_accept (a : Arch) (hn : a.nmi = true) :
    preDispatch a =
      { (((wake a).pushWord (wake a).reg.pc).setPC 0x0066) with
          iff2 := a.iff1, iff1 := false, nmi := false, int := none } ∧
    (stepArch a).1 = (dispatch (preDispatch a)).1 := by
  have hw : (wake a).nmi = true ∧ (wake a).iff1 = a.iff1 := by unfold wake; split <;> exact ⟨hn, rfl⟩
  constructor
  · simp [preDispatch, takeNmi, takeInt, acceptNmi, Arch.setPC, Arch.pushWord, hw.1, hw.2]
  · simp [stepArch, Arch.wakes, hn]

/-- in plain terms: where control goes, what is on the stack, what happens to the enables -/
theorem C13_accept_fields (a : Arch) (hn : a.nmi = true) :
    (preDispatch a).reg.pc = 0x0066 ∧ (preDispatch a).reg.sp = (wake a).reg.sp - 2 ∧
    (preDispatch a).bus = (wake a).bus.writeWord ((wake a).reg.sp - 2) (wake a).reg.pc ∧
    (preDispatch a).iff2 = a.iff1 ∧ (preDispatch a).iff1 = false ∧ (preDispatch a).int = none ∧
    (preDispatch a).nmi = false := by
  rw [(C13_accept a hn).1]; exact ⟨rfl, rfl, rfl, rfl, rfl, rfl, rfl⟩

/-- RETN restores the enable state from the shadow and returns to the pushed address -/
theorem C13_retn (len : UInt16) (a : Arch) :
    (exec .retn len a).iff1 = a.iff2 ∧ (exec .retn len a).iff2 = a.iff2 ∧
    (exec .retn len a).reg.pc = a.bus.readWord a.reg.sp ∧ (exec .retn len a).reg.sp = a.reg.sp + 2 ∧
    (exec .retn len a).bus = a.bus := ⟨rfl, rfl, rfl, rfl, rfl⟩

/-- RETI and RET leave the enable state alone -/
theorem C13_reti_ret (len : UInt16) (a : Arch) :
    (exec .reti len a).iff1 = a.iff1 ∧ (exec .reti len a).iff2 = a.iff2 ∧
    (exec .ret len a).iff1 = a.iff1 ∧ (exec .ret len a).iff2 = a.iff2 ∧
    (exec .reti len a).reg.pc = a.bus.readWord a.reg.sp ∧ (exec .reti len a).reg.sp = a.reg.sp + 2 := ⟨rfl, rfl, rfl, rfl, rfl, rfl⟩

/-- LD A,I and LD A,R expose the shadow in P/V -/
theorem C13_ld_a_ir (len : UInt16) (a : Arch) :
    (exec .ldAI len a).reg.flags.p = a.iff2 ∧ (exec .ldAR len a).reg.flags.p = a.iff2 ∧
    (exec .ldAI len a).reg.a = a.reg.i ∧ (exec .ldAR len a).reg.a = a.reg.r := ⟨rfl, rfl, rfl, rfl⟩

/-! ### NMI ... RETN restores the enable state, for every handler -/

/-- instructions that do not write the enable flip-flops -/
def keepsIff : Instr → Bool
  | .ei | .di | .retn => false
  | _ => true

private theorem ldLoop_iff (up : Bool) (n : Nat) (a : Arch) :
    (ldLoop up n a).iff1 = a.iff1 ∧ (ldLoop up n a).iff2 = a.iff2 := by
  induction n generalizing a with
  | zero => exact ⟨rfl, rfl⟩
  | succ n ih =>
    simp only [ldLoop]; split
    · exact ⟨rfl, rfl⟩
    · exact ih _

private theorem cpLoop_iff (up : Bool) (n : Nat) (a : Arch) :
    (cpLoop up n a).iff1 = a.iff1 ∧ (cpLoop up n a).iff2 = a.iff2 := by
  induction n generalizing a with
  | zero => exact ⟨rfl, rfl⟩
  | succ n ih =>
    simp only [cpLoop]; split
    · exact ⟨rfl, rfl⟩
    · exact ih _

private theorem write8_iff (a : Arch) (l : Loc8) (v : UInt8) :
    (a.write8 l v).iff1 = a.iff1 ∧ (a.write8 l v).iff2 = a.iff2 := by cases l <;> exact ⟨rfl, rfl⟩

theorem exec_keeps_iff (i : Instr) (len : UInt16) (a : Arch) (h : keepsIff i = true) :
    (exec i len a).iff1 = a.iff1 ∧ (exec i len a).iff2 = a.iff2 := by
  cases i <;> simp only [keepsIff, Bool.false_eq_true] at h <;> simp only [exec, ldRepeat, cpRepeat]
  all_goals first
    | exact ⟨rfl, rfl⟩
    | exact ⟨trivial, trivial⟩
    | exact write8_iff _ _ _
    | exact ldLoop_iff _ _ _
    | exact cpLoop_iff _ _ _
    | (split <;> first | exact ⟨rfl, rfl⟩ | exact ⟨trivial, trivial⟩)

/-- run a handler given as a list of (instruction, length) pairs -/
def execList (a : Arch) : List (Instr × UInt16) → Arch
  | [] => a
  | (i, len) :: rest => execList (exec i len a) rest

theorem execList_keeps_iff (a : Arch) (is : List (Instr × UInt16)) (h : ∀ p ∈ is, keepsIff p.1 = true) :
    (execList a is).iff1 = a.iff1 ∧ (execList a is).iff2 = a.iff2 := by
  induction is generalizing a with
  | nil => exact ⟨rfl, rfl⟩
  | cons p ps ih =>
    obtain ⟨e1, e2⟩ := exec_keeps_iff p.1 p.2 a (h p (by simp))
    obtain ⟨f1, f2⟩ := ih (exec p.1 p.2 a) (fun q hq => h q (by simp [hq]))
    exact ⟨f1.trans e1, f2.trans e2⟩

/-- NMI accepted in a state with IFF1 = e; any handler that executes no EI / DI / RETN (of any
    length, touching registers, memory, the stack as it likes); RETN: IFF1 is e again -/
theorem C13_nmi_retn_restores (a : Arch) (hn : a.nmi = true) (handler : List (Instr × UInt16)) (len : UInt16)
    (h : ∀ p ∈ handler, keepsIff p.1 = true) :
    (exec .retn len (execList (preDispatch a) handler)).iff1 = a.iff1 := by
  obtain ⟨_, h2⟩ := execList_keeps_iff (preDispatch a) handler h
  show (execList (preDispatch a) handler).iff2 = a.iff1
  rw [h2]; exact (C13_accept_fields a hn).2.2.2.1

/-- nested NMIs: the second acceptance overwrites the shadow with the (cleared) IFF1, as on the hardware -/
theorem C13_nested (a : Arch) (hn : a.nmi = true) (handler : List (Instr × UInt16))
    (h : ∀ p ∈ handler, keepsIff p.1 = true) :
    (preDispatch { execList (preDispatch a) handler with nmi := true }).iff2 = false := by
  obtain ⟨h1, _⟩ := execList_keeps_iff (preDispatch a) handler h
  have := (C13_accept_fields { execList (preDispatch a) handler with nmi := true } rfl).2.2.2.1
  rw [this]; show (execList (preDispatch a) handler).iff1 = false
  rw [h1]; exact (C13_accept_fields a hn).2.2.2.2.1

/-- the request is a latch, not a counter: raising it again before a step has consumed it changes nothing,
    so two requests without a step in between are serviced once -/
theorem C13_request_idempotent (c : Cpu) : c.nmiRequest.nmiRequest = c.nmiRequest := rfl

/-- ... and the one acceptance consumes it -/
theorem C13_request_consumed (c : Cpu) :
    (step c.nmiRequest.nmiRequest).1.arch.nmi = false := by
  have h : (c.nmiRequest.nmiRequest.arch.halt && !c.nmiRequest.nmiRequest.arch.wakes) = false := by
    simp [Cpu.nmiRequest, Arch.wakes]
  exact (stepArch_latches _ h).2

/-- non-vacuity: NMI with IFF1 = 1 and a pending maskable request -/
example :
    let a : Arch := { bus := { mem := #[0, 0, 0, 0] }, reg := { pc := 0x0102, sp := 4 }, iff1 := true, iff2 := false,
                      nmi := true, int := some 0xFF, im := 1 }
    (preDispatch a).reg.pc = 0x66 ∧ (preDispatch a).bus.mem = #[0, 0, 0x02, 0x01] ∧ (preDispatch a).iff2 = true ∧
    (preDispatch a).iff1 = false ∧ (preDispatch a).int = none := by decide

end Z80
