/-
  C17 — Execution is deterministic in machine state; diagnostics only observe.
  `Cpu = { arch, debug, slice }`: `arch` is the machine state with the pending requests, `debug`
  the four diagnostic switches with the (possibly stale) text, `slice` the timed-stepping counters.
  `step` is a mathematical function, so "repeating it from an identical state gives an identical
  outcome" holds by construction; the content is what the outcome does *not* depend on.
-/
import Z80.Lemmas.Ctl
import Z80.Model.Run
namespace Z80

/-- the architectural outcome and the T-states of a step depend on `arch` alone: any switch
    combination, any stale text, any slice counters give the same result -/
theorem C17_diag (c : Cpu) (d : Debug) (sl : Slice) :
    (step { c with debug := d, slice := sl }).1.arch = (step c).1.arch ∧
    (step { c with debug := d, slice := sl }).2 = (step c).2 := ⟨rfl, rfl⟩

/-- the only thing the diagnostics change is the diagnostic record itself, and the slice counters
    are not touched by a plain step -/
theorem C17_diag_only (c : Cpu) : (step c).1.slice = c.slice ∧
    (step c).1.debug.unknw = c.debug.unknw ∧ (step c).1.debug.opcode = c.debug.opcode ∧
    (step c).1.debug.io = c.debug.io ∧ (step c).1.debug.instrIn = c.debug.instrIn := by
  refine ⟨rfl, ?_⟩
  simp only [step, updateDebug]
  split
  · simp
  · split <;> split <;> simp

/-- two machines in the same state behave the same whatever their earlier histories were -/
theorem C17_history (c0 c0' : Cpu) (h h' : List Event) (e : (run c0 h).arch = (run c0' h').arch) :
    (step (run c0 h)).1.arch = (step (run c0' h')).1.arch ∧ (step (run c0 h)).2 = (step (run c0' h')).2 := by
  simp only [step, e]; simp

/-- no request survives a step that is not a halted idle step, so history cannot leak through the latches -/
theorem C17_latches (a : Arch) (h : (a.halt && !a.wakes) = false) :
    (stepArch a).1.int = none ∧ (stepArch a).1.nmi = false := stepArch_latches a h

/-- a halted idle step returns 4 and changes nothing at all -/
theorem C17_idle (a : Arch) (h : (a.halt && !a.wakes) = true) : stepArch a = (a, 4, none) := by
  simp [stepArch, h]

/-- non-vacuity -/
example : (step { arch := { bus := { mem := #[0, 0] } }, debug := { unknw := true, opcode := true } }).2 = 4 := by decide +kernel

end Z80
