/-
  C05 — Every opcode sequence is executed as encoded or reported as unknown.
  `decode bus pc first` is total: it maps every byte sequence to a row of one of the seven
  pages; `Instr.unknown` stands for "the interpreter has no arm".  Statements are for every
  architectural state `a` (what `execute` dispatches on, see `preDispatch`) and every CPU `c`.
-/
import Z80.Lemmas.TableRows
import Z80.Spec.Undocumented
namespace Z80

/-- the opcode selection of `execute` -/
abbrev decoded (a : Arch) : Decoded := decode a.bus a.reg.pc (firstByte a)

/-- a reported step: sentinel 255, no register other than PC changes, no memory byte changes, PC
    moves past exactly the bytes that were decoded, the request latch is consumed -/
theorem C05_reported (a : Arch) (h : (decoded a).instr = .unknown) :
    dispatch a = ({ a.setPC (a.reg.pc + (decoded a).len) with int := none }, 255,
                  ⟨(decoded a).page, true, opcodeText a.bus a.reg.pc (decoded a), decoded a, true⟩) := by
  simp only [dispatch, instrCycles, effLen, h, exec, taken, ↓reduceIte]
  simp

/-- an executed step never returns the sentinel -/
theorem C05_executed (a : Arch) (h : (decoded a).instr ≠ .unknown) :
    (dispatch a).2.1 ≠ 255 ∧ (dispatch a).1 = { exec (decoded a).instr (effLen (decoded a) a.int) a with int := none } := by
  refine ⟨?_, rfl⟩
  simp only [dispatch, instrCycles, h, ↓reduceIte]
  simp only [decoded] at h ⊢
  generalize decode a.bus a.reg.pc (firstByte a) = d at h ⊢
  have hs := tables_small
  simp only [Bool.and_eq_true, Array.all_eq_true] at hs
  obtain ⟨⟨⟨h1, h2⟩, h3⟩, h4⟩ := hs
  have hb : ∀ (t : Array UInt8) (n : Nat), (∀ i (hi : i < t.size), decide (t[i] ≤ 23) = true) → (t.getD n 0).toUInt32.toNat ≤ 23 := by
    intro t n ht
    rw [Array.getD_eq_getD_getElem?]
    by_cases hn : n < t.size
    · have := ht n hn
      simp only [Array.getElem?_eq_getElem hn, Option.getD_some, decide_eq_true_eq, UInt8.le_iff_toNat_le] at this ⊢
      simpa using this
    · simp [Array.getElem?_eq_none (Nat.le_of_not_lt hn)]
  have ht : (tableCycles d).toNat ≤ 23 := by
    unfold tableCycles
    split
    · exact hb _ _ h1
    · exact hb _ _ h2
    · exact hb _ _ h3
    · exact hb _ _ h4
    · exact hb _ _ h4
    · split <;> decide
    · split <;> decide
  have he : (extraCycles d.instr (taken d.instr a)).toNat ≤ 13 := by
    unfold extraCycles; split <;> (try split) <;> decide
  intro hc
  have := congrArg UInt32.toNat hc
  rw [UInt32.toNat_add] at this
  simp at this
  omega

/-- every documented Z80 instruction other than the I/O group is in the executed set -/
theorem C05_documented (bus : Bus) (pc : UInt16) (first : UInt8) :
    let d := decode bus pc first
    IsRow d → Spec.documented d.page d.op = true → Spec.io d.page d.op = false → d.instr ≠ .unknown := by
  intro d hr hd hio
  exact isRow_doc_impl d hr (by simp [docNonIo, hd, hio])

/-- and every byte sequence is a row of one of the seven pages (or, when an interrupt supplies a
    prefix byte that memory does not hold, reported) -/
theorem C05_total (bus : Bus) (pc : UInt16) (first : UInt8) :
    IsRow (decode bus pc first) ∨ ((decode bus pc first).instr = .unknown ∧ (decode bus pc first).len = 2) :=
  decode_isRow bus pc first

/-- with unknown-instruction diagnostics enabled, the reported step records the opcode bytes:
    `0x` followed by the two hex digits of each byte that was decoded as opcode -/
theorem C05_diagnostic (c : Cpu) (hrun : (c.arch.halt && !c.arch.wakes) = false)
    (h : (decoded (preDispatch c.arch)).instr = .unknown) (hd : c.debug.unknw = true) :
    (step c).1.debug.str = opcodeText (preDispatch c.arch).bus (preDispatch c.arch).reg.pc (decoded (preDispatch c.arch)) ∧
    (step c).2 = 255 := by
  simp only [step, stepArch, hrun, Bool.false_eq_true, ↓reduceIte, C05_reported _ h, updateDebug, hd, Bool.and_self]
  constructor
  · split <;> simp
  · trivial

theorem C05_diagnostic_text (bus : Bus) (pc : UInt16) (d : Decoded) :
    opcodeText bus pc d =
      match d.page with
      | .base => "0x" ++ hex2 d.op
      | .cb | .ed | .dd | .fd => "0x" ++ hex2 (bus.readByte pc) ++ hex2 (bus.readByte (pc + 1))
      | .ddcb | .fdcb => "0x" ++ hex2 (bus.readByte pc) ++ hex2 (bus.readByte (pc + 1)) ++
                          hex2 (bus.readByte (pc + 2)) ++ hex2 (bus.readByte (pc + 3)) := rfl

/-- the table used to judge an implementation that executes an undocumented ED encoding (`Spec.undocED`) never
    speaks about a documented or I/O encoding, and every encoding it lists is one the interpreter reports -/
theorem C05_undoc_disjoint (op : UInt8) (h : (Spec.undocED op).isSome = true) :
    Spec.documented .ed op = false ∧ Spec.io .ed op = false ∧ (decodeED op 0 0).1 = .unknown := by
  have key : ∀ i : Fin 256, (Spec.undocED (UInt8.ofFin i)).isSome = true →
      Spec.documented .ed (UInt8.ofFin i) = false ∧ Spec.io .ed (UInt8.ofFin i) = false ∧
      (decodeED (UInt8.ofFin i) 0 0).1 = .unknown := by decide +kernel
  simpa using key op.toFin h

/-- non-vacuity: ED 00 is reported, IN A,(n) too (2 bytes), LD A,n is executed -/
example :
    (decode { mem := #[0xED, 0x00] } 0 0xED).instr = .unknown ∧ (decode { mem := #[0xDB, 0x12] } 0 0xDB).len = 2 ∧
    (decode { mem := #[0x3E, 0x12] } 0 0x3E).instr = .ld8 (.reg .a) (.imm 0x12) := by decide

end Z80
