/-
  C01 — Each implemented instruction updates registers and memory per the Z80 specification.

  Full-strength statement: for every instruction i and state x,
      RM (exec i len x) = RM (Spec.apply i x)
  where RM = the registers C01 names (A B C D E H L IXH IXL IYH IYL I SP and the alternate bank, i.e.
  everything but F, PC, R) + the whole bus, and `Spec.effects` (Z80/Spec/Effects.lean) is a second,
  independent semantics: the manual's operation line of each class as parallel assignments to named
  registers plus byte stores, with arithmetic from `Spec.Arith` (natural numbers).

    * C01_full            : that equation for every instruction with a single defined operation
                            (`Spec.defined`: all but the four repeating block instructions, DAA on an
                            accumulator outside the manual's table, and two non-encodable forms);
    * C01_decoded_defined : every instruction the decoder can produce is encodable in that sense, so
                            `defined` only excludes the repeats and DAA outside its table;
    * C01_block_step, C01_repeat : the repeating block instructions are their single-step form
                            (specified by C01_full) iterated; the count is C19's;
    * C01_frame_*         : the footprint reading (registers / cells outside the specified write set
                            are unchanged), also for the repeats;
    * the older per-class value laws (C01_ld8 ... C01_add_idx) are kept: they are the same facts in the
      model's own vocabulary.
  Not covered by any C01 theorem: the value DAA leaves in A when A is not the result of a BCD
  operation (the manual defines none; the sweep compares the implementation with the model there).
-/
import Z80.Lemmas.Frame
import Z80.Lemmas.Pc
import Z80.Lemmas.EffectsSound
import Z80.Lemmas.Tables3
import Z80.Props.C02
import Z80.Props.C19
import Z80.Lemmas.Plain
namespace Z80
open Spec

/-- every instruction: a register it is not specified to write keeps its value -/
theorem C01_frame_regs (i : Instr) (len : UInt16) (x : Arch) (r : RegName) (h : r ∉ regsWritten i) :
    getReg (exec i len x) r = getReg x r := frame_regs i len x r h

/-- every non-repeating instruction: a memory cell it is not specified to write keeps its value -/
theorem C01_frame_mem (i : Instr) (len : UInt16) (x : Arch) (addr : UInt16) (hb : isBlockLoad i = false)
    (h : addr ∉ addrsWritten i x) : (exec i len x).bus.readByte addr = x.bus.readByte addr :=
  frame_mem i len x addr hb h

/-- LDIR / LDDR: only the destination range DE, DE±1, .. (BC cells; 65,536 when BC = 0) may change -/
theorem C01_frame_block (up : Bool) (len : UInt16) (x : Arch) (addr : UInt16)
    (h : ∀ k, k < blockCount x.reg.getBC → addr ≠ destAddr up x.reg.getDE k) :
    (exec (if up then .ldir else .lddr) len x).bus.readByte addr = x.bus.readByte addr := by
  have : (exec (if up then .ldir else .lddr) len x).bus = (ldRepeat up x).bus := by cases up <;> rfl
  rw [this, ldRepeat_eq_iter]
  exact iter_ldStep_frame up _ x addr h

/-! ### value laws -/

/-- LD dst,src (all 8-bit load forms: r,r' / r,n / r,(HL) / (HL),r / (HL),n / (IX+d) / A,(BC) / (nn),A ...):
    the destination holds the source operand's value as read before the step -/
theorem C01_ld8 (dst : Loc8) (src : Op8) (len : UInt16) (x : Arch) :
    match dst with
    | .reg r => (exec (.ld8 dst src) len x).reg.get8 r = x.readOp src
    | .mem m => x.bus.writable (x.addrOf m) → (exec (.ld8 dst src) len x).bus.readByte (x.addrOf m) = x.readOp src := by
  cases dst with
  | reg r => cases r <;> rfl
  | mem m => intro hw; exact Bus.readByte_writeByte_same _ _ _ hw

/-- the memory operand of the indexed forms is at IX/IY + sign-extended displacement -/
theorem C01_indexed_operand (x : Arch) (d : UInt8) :
    x.read8 (.mem (.idx .ix d)) = x.bus.readByte (x.reg.getIX + sext d) ∧
    x.read8 (.mem (.idx .iy d)) = x.bus.readByte (x.reg.getIY + sext d) := by
  constructor <;> (show x.bus.readByte (displace _ _) = _; rw [displace_eq])

/-- LD dd,nn / LD dd,(nn) / LD (nn),dd / LD SP,HL -/
theorem C01_ld16 (dst src : R16) (nn len : UInt16) (x : Arch) (hd : dst ≠ .af) :
    (exec (.ld16 dst nn) len x).reg.get16 dst = nn ∧
    (exec (.ld16m dst nn) len x).reg.get16 dst = x.bus.readWord nn ∧
    (exec (.st16m nn src) len x).bus = x.bus.writeWord nn (x.reg.get16 src) ∧
    (exec (.ldSP src) len x).reg.sp = x.reg.get16 src := by
  refine ⟨?_, ?_, rfl, rfl⟩
  · cases dst
    case af => exact absurd rfl hd
    case sp => rfl
    all_goals exact mkWord_hi_lo _
  · cases dst
    case af => exact absurd rfl hd
    case sp => rfl
    all_goals exact mkWord_hi_lo _

/-- PUSH qq: (SP-2) <- low, (SP-1) <- high, SP <- SP-2;  POP qq: the reverse -/
theorem C01_push_pop (r : R16) (len : UInt16) (x : Arch) :
    (exec (.push r) len x).reg.sp = x.reg.sp - 2 ∧
    (exec (.push r) len x).bus = x.bus.writeWord (x.reg.sp - 2) (x.reg.get16 r) ∧
    (exec (.pop r) len x).reg.sp = (if r = .sp then x.bus.readWord x.reg.sp else x.reg.sp + 2) ∧
    (r ≠ .af → r ≠ .sp → (exec (.pop r) len x).reg.get16 r = x.bus.readWord x.reg.sp) := by
  refine ⟨rfl, rfl, ?_, ?_⟩
  · cases r <;> rfl
  · intro h1 h2
    cases r
    case af => exact absurd rfl h1
    case sp => exact absurd rfl h2
    all_goals exact mkWord_hi_lo _

/-- EX DE,HL / EX (SP),HL|IX|IY -/
theorem C01_exchange (r : R16) (len : UInt16) (x : Arch) (hr : r = .hl ∨ r = .ix ∨ r = .iy) :
    (exec .exDEHL len x).reg.getDE = x.reg.getHL ∧ (exec .exDEHL len x).reg.getHL = x.reg.getDE ∧
    (exec (.exSP r) len x).reg.get16 r = x.bus.readWord x.reg.sp ∧
    (exec (.exSP r) len x).bus = x.bus.writeWord x.reg.sp (x.reg.get16 r) ∧
    (exec (.exSP r) len x).reg.sp = x.reg.sp := by
  refine ⟨?_, ?_, ?_, rfl, ?_⟩
  · show ((x.reg.setDE x.reg.getHL).setHL x.reg.getDE).getDE = _
    exact mkWord_hi_lo _
  · show ((x.reg.setDE x.reg.getHL).setHL x.reg.getDE).getHL = _
    exact mkWord_hi_lo _
  · rcases hr with h | h | h <;> subst h <;> exact mkWord_hi_lo _
  · rcases hr with h | h | h <;> subst h <;> rfl

/-- LDI / LDD: (DE) <- (HL), DE±1, HL±1, BC-1 — all from the values before the step -/
theorem C01_ldi (up : Bool) (x : Arch) :
    (ldStep up x).bus = x.bus.writeByte x.reg.getDE (x.bus.readByte x.reg.getHL) ∧
    (ldStep up x).reg.getDE = (if up then x.reg.getDE + 1 else x.reg.getDE - 1) ∧
    (ldStep up x).reg.getHL = (if up then x.reg.getHL + 1 else x.reg.getHL - 1) ∧
    (ldStep up x).reg.getBC = x.reg.getBC - 1 := by
  refine ⟨rfl, ldStep_de up x, ?_, ldStep_bc up x⟩
  have : (ldStep up x).reg.getHL =
      ((x.reg.setDE (if up then x.reg.getDE + 1 else x.reg.getDE - 1)).setHL (if up then x.reg.getHL + 1 else x.reg.getHL - 1)).getHL := rfl
  rw [this]; exact mkWord_hi_lo _

/-- CPI / CPD: HL±1, BC-1, memory and A unchanged -/
theorem C01_cpi (up : Bool) (x : Arch) :
    (cpStep up x).bus = x.bus ∧ (cpStep up x).reg.a = x.reg.a ∧
    (cpStep up x).reg.getHL = (if up then x.reg.getHL + 1 else x.reg.getHL - 1) ∧
    (cpStep up x).reg.getBC = x.reg.getBC - 1 := by
  refine ⟨rfl, rfl, ?_, cpStep_bc up x⟩
  have : (cpStep up x).reg.getHL = (x.reg.setHL (if up then x.reg.getHL + 1 else x.reg.getHL - 1)).getHL := rfl
  rw [this]; exact mkWord_hi_lo _

/-- read-modify-write on a memory operand: the cell receives the core's result computed from its old
    content (INC/DEC/rotates/SET/RES on (HL) and (IX+d)) -/
theorem C01_rmw_mem (m : MemRef) (op : RotOp) (b : UInt8) (len : UInt16) (x : Arch) (hw : x.bus.writable (x.addrOf m)) :
    let old := x.bus.readByte (x.addrOf m)
    (exec (.inc8 (.mem m)) len x).bus.readByte (x.addrOf m) = old + 1 ∧
    (exec (.dec8 (.mem m)) len x).bus.readByte (x.addrOf m) = old - 1 ∧
    (exec (.rot op (.mem m)) len x).bus.readByte (x.addrOf m) = (rotApply op old x.reg.flags).1 ∧
    (exec (.set b (.mem m)) len x).bus.readByte (x.addrOf m) = bitSet old b ∧
    (exec (.res b (.mem m)) len x).bus.readByte (x.addrOf m) = bitReset old b := by
  have e : ∀ f, (x.setFlags f).addrOf m = x.addrOf m := fun f => addrOf_setFlags x f m
  refine ⟨?_, ?_, ?_, ?_, ?_⟩
  · show ((x.setFlags _).bus.writeByte ((x.setFlags _).addrOf m) _).readByte _ = _
    rw [e]; exact Bus.readByte_writeByte_same _ _ _ hw
  · show ((x.setFlags _).bus.writeByte ((x.setFlags _).addrOf m) _).readByte _ = _
    rw [e]; exact Bus.readByte_writeByte_same _ _ _ hw
  · show ((x.setFlags _).bus.writeByte ((x.setFlags _).addrOf m) _).readByte _ = _
    rw [e]; exact Bus.readByte_writeByte_same _ _ _ hw
  · exact Bus.readByte_writeByte_same _ _ _ hw
  · exact Bus.readByte_writeByte_same _ _ _ hw

/-- INC ss / DEC ss / register-to-register moves are plain modular arithmetic on the pair -/
theorem C01_inc16 (r : R16) (len : UInt16) (x : Arch) (hr : r ≠ .af) :
    (exec (.inc16 r) len x).reg.get16 r = x.reg.get16 r + 1 ∧ (exec (.dec16 r) len x).reg.get16 r = x.reg.get16 r - 1 := by
  constructor
  · cases r
    case af => exact absurd rfl hr
    case sp => rfl
    all_goals exact mkWord_hi_lo _
  · cases r
    case af => exact absurd rfl hr
    case sp => rfl
    all_goals exact mkWord_hi_lo _

theorem Regs.getBC_setBC_hl (r : Regs) (v : UInt16) : (r.setHL v).getHL = v := mkWord_hi_lo v

/-! ### arithmetic results written to registers (values from C02's theorems) -/

/-- 8-bit arithmetic/logic: A receives the specified result of `A op operand` (CP leaves A alone) -/
theorem C01_alu (src : Op8) (len : UInt16) (x : Arch) :
    let a := x.reg.a.toNat
    let n := (x.readOp src).toNat
    let c := Spec.b2n x.reg.flags.c
    (exec (.alu .add src) len x).reg.a.toNat = (Spec.addW 8 a n 0).r ∧
    (exec (.alu .adc src) len x).reg.a.toNat = (Spec.addW 8 a n c).r ∧
    (exec (.alu .sub src) len x).reg.a.toNat = (Spec.subW 8 a n 0).r ∧
    (exec (.alu .sbc src) len x).reg.a.toNat = (Spec.subW 8 a n c).r ∧
    (exec (.alu .and src) len x).reg.a.toNat = a &&& n ∧
    (exec (.alu .or src) len x).reg.a.toNat = a ||| n ∧
    (exec (.alu .xor src) len x).reg.a.toNat = a ^^^ n ∧
    (exec (.alu .cp src) len x).reg.a = x.reg.a := by
  refine ⟨?_, ?_, ?_, ?_, ?_, ?_, ?_, rfl⟩
  · exact (C02_add x.reg.a (x.readOp src) x.reg.flags).1
  · exact (C02_adc x.reg.a (x.readOp src) x.reg.flags).1
  · exact (C02_sub x.reg.a (x.readOp src) x.reg.flags).1
  · exact (C02_sbc x.reg.a (x.readOp src) x.reg.flags).1
  · exact (C02_and x.reg.a (x.readOp src) x.reg.flags).1
  · exact (C02_or x.reg.a (x.readOp src) x.reg.flags).1
  · exact (C02_xor x.reg.a (x.readOp src) x.reg.flags).1

/-- 16-bit arithmetic: HL (IX, IY) receives the sum / difference modulo 65,536 -/
theorem C01_arith16 (src : R16) (len : UInt16) (x : Arch) :
    let h := x.reg.getHL.toNat
    let n := (x.reg.get16 src).toNat
    let c := Spec.b2n x.reg.flags.c
    (exec (.add16 .hl src) len x).reg.getHL.toNat = (Spec.addW 16 h n 0).r ∧
    (exec (.adc16 src) len x).reg.getHL.toNat = (Spec.addW 16 h n c).r ∧
    (exec (.sbc16 src) len x).reg.getHL.toNat = (Spec.subW 16 h n c).r := by
  refine ⟨?_, ?_, ?_⟩
  · have := (C02_add16 x.reg.getHL (x.reg.get16 src) x.reg.flags).1
    show ((x.reg.setHL (Alu.add16 x.reg.getHL (x.reg.get16 src) x.reg.flags).1).getHL).toNat = _
    rw [Regs.getBC_setBC_hl]
    exact this
  · have := (C02_adc16 x.reg.getHL (x.reg.get16 src) x.reg.flags).1
    show ((x.reg.setHL (Alu.adc16 x.reg.getHL (x.reg.get16 src) x.reg.flags).1).getHL).toNat = _
    rw [Regs.getBC_setBC_hl]
    exact this
  · have := (C02_sbc16 x.reg.getHL (x.reg.get16 src) x.reg.flags).1
    show ((x.reg.setHL (Alu.sbc16 x.reg.getHL (x.reg.get16 src) x.reg.flags).1).getHL).toNat = _
    rw [Regs.getBC_setBC_hl]
    exact this

/-- the remaining single-register results: INC/DEC r, NEG, CPL, LD A,I / LD A,R / LD I,A, DJNZ's B -/
theorem C01_misc (r : R8) (e : UInt8) (len : UInt16) (x : Arch) :
    (exec (.inc8 (.reg r)) len x).reg.get8 r = x.reg.get8 r + 1 ∧
    (exec (.dec8 (.reg r)) len x).reg.get8 r = x.reg.get8 r - 1 ∧
    (exec .neg len x).reg.a = 0 - x.reg.a ∧ (exec .cpl len x).reg.a = ~~~x.reg.a ∧
    (exec .ldAI len x).reg.a = x.reg.i ∧ (exec .ldAR len x).reg.a = x.reg.r ∧ (exec .ldIA len x).reg.i = x.reg.a ∧
    (exec (.djnz e) len x).reg.b = x.reg.b - 1 := by
  refine ⟨?_, ?_, ?_, rfl, rfl, rfl, rfl, ?_⟩
  · cases r <;> rfl
  · cases r <;> rfl
  · show ~~~x.reg.a + 1 = 0 - x.reg.a
    apply UInt8.eq_of_toBitVec_eq; simp [BitVec.neg_eq_not_add]
  · simp only [exec]; split <;> rfl

/-- rotates / SET / RES on a register, the accumulator rotates and DAA write the core's result back;
    RLD / RRD write A and (HL) with the specified nibble moves (C02_rld / C02_rrd give their values) -/
theorem C01_rot_reg (r : R8) (op : RotOp) (b : UInt8) (len : UInt16) (x : Arch) :
    (exec (.rot op (.reg r)) len x).reg.get8 r = (rotApply op (x.reg.get8 r) x.reg.flags).1 ∧
    (exec (.set b (.reg r)) len x).reg.get8 r = bitSet (x.reg.get8 r) b ∧
    (exec (.res b (.reg r)) len x).reg.get8 r = bitReset (x.reg.get8 r) b ∧
    (exec .rlca len x).reg.a = (Alu.rlca x.reg.a x.reg.flags).1 ∧ (exec .rla len x).reg.a = (Alu.rla x.reg.a x.reg.flags).1 ∧
    (exec .rrca len x).reg.a = (Alu.rrca x.reg.a x.reg.flags).1 ∧ (exec .rra len x).reg.a = (Alu.rra x.reg.a x.reg.flags).1 ∧
    (exec .daa len x).reg.a = (Alu.daa x.reg.a x.reg.flags).1 := by
  refine ⟨?_, ?_, ?_, rfl, rfl, rfl, rfl, rfl⟩ <;> (cases r <;> rfl)

theorem C01_rld_rrd (len : UInt16) (x : Arch) (hw : x.bus.writable x.reg.getHL) :
    let m := x.bus.readByte x.reg.getHL
    (exec .rld len x).reg.a.toNat = (Spec.rld x.reg.a.toNat m.toNat).1 ∧
    ((exec .rld len x).bus.readByte x.reg.getHL).toNat = (Spec.rld x.reg.a.toNat m.toNat).2 ∧
    (exec .rrd len x).reg.a.toNat = (Spec.rrd x.reg.a.toNat m.toNat).1 ∧
    ((exec .rrd len x).bus.readByte x.reg.getHL).toNat = (Spec.rrd x.reg.a.toNat m.toNat).2 := by
  obtain ⟨l1, l2, _⟩ := C02_rld x.reg.a (x.bus.readByte x.reg.getHL) x.reg.flags
  obtain ⟨r1, r2, _⟩ := C02_rrd x.reg.a (x.bus.readByte x.reg.getHL) x.reg.flags
  refine ⟨l1, ?_, r1, ?_⟩
  · show ((x.bus.writeByte x.reg.getHL _).readByte x.reg.getHL).toNat = _
    rw [Bus.readByte_writeByte_same _ _ _ hw]; exact l2
  · show ((x.bus.writeByte x.reg.getHL _).readByte x.reg.getHL).toNat = _
    rw [Bus.readByte_writeByte_same _ _ _ hw]; exact r2

/-- ADD IX,pp / ADD IY,rr: the index register receives the 16-bit sum -/
theorem C01_add_idx (src : R16) (len : UInt16) (x : Arch) :
    (exec (.add16 .ix src) len x).reg.getIX.toNat = (Spec.addW 16 x.reg.getIX.toNat (x.reg.get16 src).toNat 0).r ∧
    (exec (.add16 .iy src) len x).reg.getIY.toNat = (Spec.addW 16 x.reg.getIY.toNat (x.reg.get16 src).toNat 0).r := by
  constructor
  · have := (C02_add16 x.reg.getIX (x.reg.get16 src) x.reg.flags).1
    show ((x.reg.setIX (Alu.add16 x.reg.getIX (x.reg.get16 src) x.reg.flags).1).getIX).toNat = _
    rw [show (x.reg.setIX (Alu.add16 x.reg.getIX (x.reg.get16 src) x.reg.flags).1).getIX = _ from mkWord_hi_lo _]
    exact this
  · have := (C02_add16 x.reg.getIY (x.reg.get16 src) x.reg.flags).1
    show ((x.reg.setIY (Alu.add16 x.reg.getIY (x.reg.get16 src) x.reg.flags).1).getIY).toNat = _
    rw [show (x.reg.setIY (Alu.add16 x.reg.getIY (x.reg.get16 src) x.reg.flags).1).getIY = _ from mkWord_hi_lo _]
    exact this

/-- summary of the footprint part of C01 -/
theorem C01_frame (i : Instr) (len : UInt16) (x : Arch) :
    (∀ r, r ∉ regsWritten i → getReg (exec i len x) r = getReg x r) ∧
    (isBlockLoad i = false → ∀ addr, addr ∉ addrsWritten i x → (exec i len x).bus.readByte addr = x.bus.readByte addr) :=
  ⟨fun r h => frame_regs i len x r h, fun hb addr h => frame_mem i len x addr hb h⟩

/-! ### the full statement against the second semantics -/

/-- every register C01 names and the whole bus after the step are what the manual's operation says,
    computed from the state before the step -/
theorem C01_full (i : Instr) (len : UInt16) (x : Arch) (hd : Spec.defined i x) :
    (∀ r, getReg (exec i len x) r = Spec.assign (Spec.effects i (x.reg.pc + len) x).regs (getReg x) r) ∧
    (exec i len x).bus = Spec.store (Spec.effects i (x.reg.pc + len) x).mem x.bus :=
  ⟨effects_regs i len x hd, effects_mem i len x hd⟩

/-- whatever bytes are in memory, the decoded instruction is one `Spec.defined` accepts unless it is a
    repeating block instruction or DAA (whose table decides) -/
theorem C01_decoded_defined (bus : Bus) (pc : UInt16) (first : UInt8) (x : Arch)
    (hr : (decode bus pc first).instr ∉ [Instr.ldir, .lddr, .cpir, .cpdr, .daa]) :
    Spec.defined (decode bus pc first).instr x := by
  have hw := decode_wf bus pc first
  generalize (decode bus pc first).instr = i at hr hw
  cases i <;> simp [wfInstr] at hw <;> simp at hr <;> simp [Spec.defined] <;> assumption

/-- the same for a whole `execute` step of a running CPU with no request pending: the instruction is the
    one decoded from the bytes at PC, `ret` is PC + its encoded length -/
theorem C01_step (a : Arch) (h : a.quiet) :
    let d := decode a.bus a.reg.pc (a.bus.readByte a.reg.pc)
    Spec.defined d.instr a →
    (∀ r, getReg (stepArch a).1 r = Spec.assign (Spec.effects d.instr (a.reg.pc + d.len) a).regs (getReg a) r) ∧
    (stepArch a).1.bus = Spec.store (Spec.effects d.instr (a.reg.pc + d.len) a).mem a.bus := by
  intro d hd
  have e : (stepArch a).1 = { exec d.instr d.len a with int := none } := by
    rw [stepArch_quiet a h]; exact dispatch_quiet a h
  rw [e]
  exact ⟨fun r => by
    have := effects_regs d.instr d.len a hd r
    rw [← this]; cases r <;> rfl, effects_mem d.instr d.len a hd⟩

/-- LDI / LDD / CPI / CPD without the PC advance: the step the repeating forms iterate -/
theorem C01_block_step (up : Bool) (ret : UInt16) (x : Arch) :
    ((∀ r, getReg (ldStep up x) r = Spec.assign (Spec.effects (if up then .ldi else .ldd) ret x).regs (getReg x) r) ∧
      (ldStep up x).bus = Spec.store (Spec.effects (if up then .ldi else .ldd) ret x).mem x.bus) ∧
    ((∀ r, getReg (cpStep up x) r = Spec.assign (Spec.effects (if up then .cpi else .cpd) ret x).regs (getReg x) r) ∧
      (cpStep up x).bus = x.bus) := by
  cases up
  · exact ⟨⟨fun r => by have := effects_regs .ldd 0 x trivial r; rwa [show exec .ldd 0 x = (ldStep false x).setPC _ from rfl, getReg_setPC] at this,
            effects_mem .ldd 0 x trivial⟩,
           ⟨fun r => by have := effects_regs .cpd 0 x trivial r; rwa [show exec .cpd 0 x = (cpStep false x).setPC _ from rfl, getReg_setPC] at this, rfl⟩⟩
  · exact ⟨⟨fun r => by have := effects_regs .ldi 0 x trivial r; rwa [show exec .ldi 0 x = (ldStep true x).setPC _ from rfl, getReg_setPC] at this,
            effects_mem .ldi 0 x trivial⟩,
           ⟨fun r => by have := effects_regs .cpi 0 x trivial r; rwa [show exec .cpi 0 x = (cpStep true x).setPC _ from rfl, getReg_setPC] at this, rfl⟩⟩

/-- the repeating block instructions leave the registers and the bus of that step iterated: BC times
    (65,536 when BC = 0) for the loads, up to the first match or BC = 0 for the compares (C19) -/
theorem C01_repeat (len : UInt16) (x : Arch) :
    (∀ up : Bool, (∀ r, getReg (exec (if up then .ldir else .lddr) len x) r = getReg (iter (ldStep up) (blockCount x.reg.getBC) x) r) ∧
      (exec (if up then .ldir else .lddr) len x).bus = (iter (ldStep up) (blockCount x.reg.getBC) x).bus) ∧
    (∀ up : Bool, ∃ k, 0 < k ∧ k ≤ blockCount x.reg.getBC ∧
      (∀ r, getReg (exec (if up then .cpir else .cpdr) len x) r = getReg (iter (cpStep up) k x) r) ∧
      (exec (if up then .cpir else .cpdr) len x).bus = x.bus) := by
  constructor
  · intro up
    cases up
    · simp only [Bool.false_eq_true, ↓reduceIte]; rw [C19_lddr]; exact ⟨fun r => getReg_setPC _ _ r, rfl⟩
    · simp only [↓reduceIte]; rw [C19_ldir]; exact ⟨fun r => getReg_setPC _ _ r, rfl⟩
  · intro up
    cases up
    · obtain ⟨k, h0, h1, h2, _, _⟩ := C19_cpdr len x
      refine ⟨k, h0, h1, ?_, ?_⟩
      · intro r; simp only [Bool.false_eq_true, ↓reduceIte]; rw [h2]; exact getReg_setPC _ _ r
      · simp only [Bool.false_eq_true, ↓reduceIte, exec, cpRepeat, Arch.setPC_bus]; exact cpLoop_bus _ _ _
    · obtain ⟨k, h0, h1, h2, _, _⟩ := C19_cpir len x
      refine ⟨k, h0, h1, ?_, ?_⟩
      · intro r; simp only [↓reduceIte]; rw [h2]; exact getReg_setPC _ _ r
      · simp only [↓reduceIte, exec, cpRepeat, Arch.setPC_bus]; exact cpLoop_bus _ _ _

/-- non-vacuity: EX (SP),HL on a concrete state -/
example :
    let x : Arch := { bus := { mem := #[0, 0, 0x34, 0x12] }, reg := { sp := 2, h := 0xAB, l := 0xCD } }
    (exec (.exSP .hl) 1 x).reg.getHL = 0x1234 ∧ (exec (.exSP .hl) 1 x).bus.mem = #[0, 0, 0xCD, 0xAB] ∧
    RegName.b ∉ regsWritten (.exSP .hl) := by decide

/-- non-vacuity of C01_full: DAA after 0x15 + 0x27 = 0x3C is a row of the manual's table; the specification
    says A becomes 0x42 -/
example :
    let x : Arch := { bus := { mem := #[0x27] }, reg := { a := 0x3C } }
    Spec.defined .daa x ∧ (Spec.effects .daa 1 x).regs = [(.a, 0x42)] ∧ (exec .daa 1 x).reg.a = 0x42 :=
  ⟨by show (Spec.daaTable _ _ _ _ _).isSome = true; decide, by decide, by decide⟩

end Z80
