/-
  C18 — Timed stepping equals plain stepping and throttles once per cycle budget.
  `executeTimed c e`: `e` is the one environment input, `slice_start_time.elapsed()` in ms,
  `none` when the clock went backwards (then no request is produced: the "monotonic clock"
  assumption of the property).  The budget itself (`set_freq`, f32 arithmetic) is a parameter
  of the model (`slice.max`); the formula f x 1000 x d is covered by the correspondence only.
-/
import Z80.Model.Run
namespace Z80

/-- a timed step has exactly the architectural effect (and diagnostics) of a plain step -/
theorem C18_arch (c : Cpu) (e : Option UInt32) :
    (executeTimed c e).1.arch = (step c).1.arch ∧ (executeTimed c e).1.debug = (step c).1.debug := ⟨rfl, rfl⟩

/-- a sleep request is returned exactly at the calls where the accumulated T-states exceed the budget -/
theorem C18_fires_iff (c : Cpu) (e : UInt32) :
    (executeTimed c (some e)).2.isSome = true ↔ c.slice.max < c.slice.cur := by
  simp only [executeTimed, sliceFires]
  by_cases h : c.slice.cur > c.slice.max <;> simp [h] <;> exact h

/-- never otherwise, whatever the clock says -/
theorem C18_no_spurious (c : Cpu) (e : Option UInt32) (h : ¬ c.slice.max < c.slice.cur) :
    (executeTimed c e).2 = none := by
  simp only [executeTimed, sliceFires]
  have : ¬ c.slice.cur > c.slice.max := h
  simp [this]

/-- the requested sleep never exceeds the slice duration -/
theorem C18_bound (c : Cpu) (e : Option UInt32) (t : UInt32) (h : (executeTimed c e).2 = some t) :
    t ≤ c.slice.duration := by
  simp only [executeTimed] at h
  split at h
  · cases e with
    | none => simp at h
    | some d =>
      simp only [Option.map_some, Option.some.injEq] at h
      split at h
      · rename_i hd; subst h
        rw [UInt32.le_iff_toNat_le, UInt32.toNat_sub_of_le _ _ hd]; omega
      · subst h; exact UInt32.le_iff_toNat_le.mpr (by simp)
  · simp at h

/-- the counter: reset when a request is due, then advanced by the T-states of this step;
    duration and budget are not touched -/
theorem C18_counter (c : Cpu) (e : Option UInt32) :
    (executeTimed c e).1.slice.cur = (if c.slice.max < c.slice.cur then 0 else c.slice.cur) + (step c).2 ∧
    (executeTimed c e).1.slice.max = c.slice.max ∧ (executeTimed c e).1.slice.duration = c.slice.duration := by
  refine ⟨?_, rfl, rfl⟩
  simp only [executeTimed, sliceFires]
  by_cases h : c.slice.cur > c.slice.max
  · have h' : c.slice.max < c.slice.cur := h
    simp [h, h']
  · have h' : ¬ c.slice.max < c.slice.cur := h
    simp [h, h']

/-- the budget for a clock of f = n8/8 MHz and a slice of d ms: f x 1000 x d T-states
    (8 * budget = n8 * 1000 * d, no rounding).  That the f32 code computes this value is checked on
    the implementation for the grid f in eighths of a MHz x d | 1000. -/
theorem C18_budget (c : Cpu) (n8 : UInt32) (h : n8.toNat * 125 * c.slice.duration.toNat < 2 ^ 32) :
    8 * (c.setFreqEighths n8).slice.max.toNat = n8.toNat * 1000 * c.slice.duration.toNat ∧
    (c.setFreqEighths n8).slice.duration = c.slice.duration := by
  refine ⟨?_, rfl⟩
  show 8 * (n8 * 125 * c.slice.duration).toNat = _
  generalize hx : n8.toNat = x at h
  generalize hd : c.slice.duration.toNat = d at h
  have ha : ∀ a b e : Nat, 8 * (a * 125 * e) = a * 1000 * e := by
    intro a b e
    rw [← Nat.mul_assoc, Nat.mul_comm 8 (a * 125), Nat.mul_assoc a 125 8]
  by_cases hz : d = 0
  · subst hz
    have : c.slice.duration = 0 := UInt32.toNat_inj.mp (by simpa using hd)
    rw [this]; simp
  · have h1 : x * 125 < 2 ^ 32 := by
      have : x * 125 ≤ x * 125 * d := Nat.le_mul_of_pos_right _ (Nat.pos_of_ne_zero hz)
      omega
    rw [UInt32.toNat_mul, UInt32.toNat_mul, hx, hd]
    simp only [show (125 : UInt32).toNat = 125 from rfl]
    rw [Nat.mod_eq_of_lt h1, Nat.mod_eq_of_lt h]
    exact ha x 0 d

/-- clocks off that grid: `Spec.budgetExact m e d` is f x 1000 x d for f = m * 2^(e-150) (the value of a positive
    normal single), split into whole T-states and a proper fraction r/den - no rounding anywhere -/
theorem C18_budget_exact (m e d : Nat) :
    (Spec.budgetExact m e d).2.1 < (Spec.budgetExact m e d).2.2 ∧
    (if e ≥ 150 then (Spec.budgetExact m e d).1 = m * 1000 * d * 2 ^ (e - 150)
     else (Spec.budgetExact m e d).1 * 2 ^ (150 - e) + (Spec.budgetExact m e d).2.1 = m * 1000 * d) := by
  unfold Spec.budgetExact
  by_cases h : e ≥ 150
  · simp [h]
  · simp only [h, ↓reduceIte]
    have hp : 0 < 2 ^ (150 - e) := Nat.two_pow_pos _
    exact ⟨Nat.mod_lt _ hp, by rw [Nat.mul_comm]; exact Nat.div_add_mod _ _⟩

/-- and on the grid (f = n8/8 MHz exactly) it is the value of `C18_budget`, with nothing left over -/
theorem C18_budget_on_grid (m e n8 d : Nat) (he : e < 150) (hg : m * 8 = n8 * 2 ^ (150 - e)) :
    (Spec.budgetExact m e d).1 = n8 * 125 * d ∧ (Spec.budgetExact m e d).2.1 = 0 := by
  have h : ¬ e ≥ 150 := by omega
  have hp : 0 < 2 ^ (150 - e) := Nat.two_pow_pos _
  have e1 : m * 1000 * d = n8 * 125 * d * 2 ^ (150 - e) := by
    have : m * 1000 * d = m * 8 * (125 * d) := by
      rw [Nat.mul_assoc m 8, ← Nat.mul_assoc 8 125 d, Nat.mul_assoc m 1000 d]
    rw [this, hg, Nat.mul_assoc, Nat.mul_comm (2 ^ (150 - e)), ← Nat.mul_assoc, ← Nat.mul_assoc]
  unfold Spec.budgetExact
  simp only [h, ↓reduceIte, e1]
  exact ⟨Nat.mul_div_cancel _ hp, Nat.mul_mod_left _ _⟩

/-! ### histories of timed steps -/

/-- the accounting the property describes: T-states accumulated since the previous request -/
def accumulate (max : UInt32) (acc : UInt32) (cyc : UInt32) : UInt32 := (if max < acc then 0 else acc) + cyc

/-- run `es` timed steps, collecting for each call (request returned?, T-states of the step) -/
def timedTrace (c : Cpu) : List UInt32 → Cpu × List (Bool × UInt32)
  | [] => (c, [])
  | e :: es =>
    let r := executeTimed c (some e)
    let t := timedTrace r.1 es
    (t.1, (r.2.isSome, (step c).2) :: t.2)

/-- replay of the accounting over a recorded trace -/
def replayAcc (max : UInt32) (acc : UInt32) : List (Bool × UInt32) → Option UInt32
  | [] => some acc
  | (fired, cyc) :: rest => if fired = decide (max < acc) then replayAcc max (accumulate max acc cyc) rest else none

/-- for every history of timed calls (monotonic clock): each call returns a request exactly when the
    T-states accumulated since the previous request exceed the budget, and the counter always holds
    that accumulated sum -/
theorem C18_history (c : Cpu) (es : List UInt32) :
    replayAcc c.slice.max c.slice.cur (timedTrace c es).2 = some (timedTrace c es).1.slice.cur ∧
    (timedTrace c es).1.slice.max = c.slice.max := by
  induction es generalizing c with
  | nil => exact ⟨rfl, rfl⟩
  | cons e es ih =>
    simp only [timedTrace, replayAcc]
    have hf : (executeTimed c (some e)).2.isSome = decide (c.slice.max < c.slice.cur) := by
      by_cases h : c.slice.max < c.slice.cur
      · simp [(C18_fires_iff c e).mpr h, h]
      · have := C18_no_spurious c (some e) h
        simp [this, h]
    obtain ⟨hc, hm, _⟩ := C18_counter c (some e)
    obtain ⟨ih1, ih2⟩ := ih (executeTimed c (some e)).1
    simp only [hf, ↓reduceIte]
    rw [hm] at ih1 ih2
    refine ⟨?_, ih2⟩
    rw [← ih1, hc]; rfl

/-! ### histories of arbitrary host calls -/

/-- what each host call does to the slice bookkeeping, as the property describes it: a timed step restarts the
    count when a request was due and adds the T-states of the step; `set_freq` replaces the budget and
    `set_slice_duration` the duration, neither touches the count; nothing else touches any of the three -/
def Slice.after (s : Slice) (e : Event) (cyc : UInt32) : Slice :=
  match e with
  | .timed _ => { s with cur := accumulate s.max s.cur cyc }
  | .setFreq n8 => { s with max := n8 * 125 * s.duration }
  | .setSliceDuration d => { s with duration := d }
  | _ => s

/-- every host call, in any state: the bookkeeping evolves exactly by `Slice.after`; in particular changing the
    clock in the middle of a slice neither discards nor restarts the T-states accumulated so far, and plain
    steps, requests, stores, loads and register assignments do not count -/
theorem C18_event (c : Cpu) (e : Event) : (runEvent c e).slice = c.slice.after e (step c).2 := by
  cases e with
  | timed el =>
    show (executeTimed c el).1.slice = _
    simp only [Slice.after, accumulate, executeTimed, sliceFires]
    by_cases h : c.slice.cur > c.slice.max
    · have h' : c.slice.max < c.slice.cur := h
      simp [h, h']
    · have h' : ¬ c.slice.max < c.slice.cur := h
      simp [h, h']
  | load file org => show (c.loadBin file org).slice = _; unfold Cpu.loadBin; split <;> rfl
  | clear s t => show (c.clearSlice s t).slice = _; unfold Cpu.clearSlice; split <;> rfl
  | _ => rfl

/-- the slice bookkeeping after a whole history, computed without looking at the machine state except for the
    T-states of the timed steps -/
def sliceAlong (c : Cpu) : List Event → Slice
  | [] => c.slice
  | e :: es => sliceAlong (runEvent c e) es

theorem C18_run (c : Cpu) (es : List Event) : (run c es).slice = sliceAlong c es := by
  induction es generalizing c with
  | nil => rfl
  | cons e es ih => exact ih (runEvent c e)

/-- and at every timed call of any history the request is returned exactly when the count exceeds the budget
    in force at that moment -/
theorem C18_run_fires (c : Cpu) (es : List Event) (el : UInt32) :
    (executeTimed (run c es) (some el)).2.isSome = true ↔ (run c es).slice.max < (run c es).slice.cur :=
  C18_fires_iff (run c es) el

/-- non-vacuity: budget 3, counter 4 -> request, counter restarts from this step's 4 T-states -/
example :
    let c : Cpu := { arch := { bus := { mem := #[0, 0] } }, slice := { duration := 16, max := 3, cur := 4 } }
    (executeTimed c (some 5)).2 = some 11 ∧ (executeTimed c (some 5)).1.slice.cur = 4 ∧
    (executeTimed c (some 99)).2 = some 0 := by decide +kernel

end Z80
