/-
  C07 — Bytes inside the declared ROM range never change, whatever is executed.
  Quantifiers: every bus (any size, any window [start,end], also start > end = empty range),
  every address and value, every instruction, every machine state (any control state, pending
  requests), every finite history of steps, timed steps, requests and host byte/word writes.
-/
import Z80.Lemmas.Rom
namespace Z80
open Bus

/-- byte write: no ROM byte changes -/
theorem C07_write_byte (b : Bus) (a x : UInt16) (v : UInt8) (h : b.inRom x = true) :
    (b.writeByte a v).readByte x = b.readByte x := readByte_writeByte_rom b a x v h

/-- word write: no ROM byte changes, for every alignment of the word against both ends -/
theorem C07_write_word (b : Bus) (a x w : UInt16) (h : b.inRom x = true) :
    (b.writeWord a w).readByte x = b.readByte x := readByte_writeWord_rom b a x w h

/-- writes outside the range (and inside the configured memory) still take effect -/
theorem C07_write_effective (b : Bus) (a : UInt16) (v : UInt8) (h1 : a.toNat < b.mem.size) (h2 : b.inRom a = false) :
    (b.writeByte a v).readByte a = v := readByte_writeByte_same b a v ⟨h1, h2⟩

/-- each half of a word write takes effect exactly when its own address is writable -/
theorem C07_write_word_effective (b : Bus) (a w : UInt16) :
    (b.writable (a + 1) → (b.writeWord a w).readByte (a + 1) = (w >>> 8).toUInt8) ∧
    (b.writable a → (b.writeWord a w).readByte a = loByte w) := by
  constructor
  · intro h
    unfold writeWord
    rw [readByte_writeByte_same]
    exact ⟨by simpa using h.1, by simpa using h.2⟩
  · intro h
    unfold writeWord
    have hne : a ≠ a + 1 := by
      intro e; have := congrArg UInt16.toNat e; simp [UInt16.toNat_add] at this; omega
    rw [readByte_writeByte_other _ _ _ _ hne, readByte_writeByte_same _ _ _ h]

/-- the declaration itself and the memory size survive every write -/
theorem C07_declaration_stable (b : Bus) (a w : UInt16) (v : UInt8) :
    (b.writeByte a v).rom = b.rom ∧ (b.writeWord a w).rom = b.rom := ⟨by simp, by simp⟩

/-- one instruction, any instruction: no ROM byte changes -/
theorem C07_exec (i : Instr) (len : UInt16) (a : Arch) (x : UInt16) (h : a.bus.inRom x = true) :
    (exec i len a).bus.readByte x = a.bus.readByte x := (exec_romEq i len a).bytes x h

/-- one step of `execute` (halted or not, with NMI / INT acceptance and their pushes) -/
theorem C07_step (c : Cpu) (x : UInt16) (h : c.arch.bus.inRom x = true) :
    (step c).1.arch.bus.readByte x = c.arch.bus.readByte x := (step_romEq c).bytes x h

/-- every history of host calls — no bound on its length — that does not declare a new range (and does not use
    the two utilities that overwrite memory wholesale, `load_bin` and `clear_mem_slice`, which the property does not
    cover): steps, timed steps, requests, byte and word stores, observations, clock settings, register
    assignments.  No byte of the declared range changes and the declaration stays. -/
theorem C07_run (c : Cpu) (es : List Event) (hr : ∀ e ∈ es, e.isSetRom = false ∧ e.overwrites = false) (x : UInt16)
    (h : c.arch.bus.inRom x = true) :
    (run c es).arch.bus.readByte x = c.arch.bus.readByte x ∧ (run c es).arch.bus.rom = c.arch.bus.rom :=
  ⟨(run_romEq c es hr).bytes x h, (run_romEq c es hr).rom⟩

/-- the declaration itself is changed by `set_romspace` and by nothing else: in particular a `load_bin` that
    fails (missing file), one that is refused, one that succeeds, and `clear_mem_slice` all leave the range
    declared, so the stores that follow are still checked against it -/
theorem C07_declaration_persists (c : Cpu) (es : List Event) (hr : ∀ e ∈ es, e.isSetRom = false) :
    (run c es).arch.bus.rom = c.arch.bus.rom := run_rom_decl c es hr

/-- a failed load changes nothing at all -/
theorem C07_failed_load (c : Cpu) (org : UInt16) : runEvent c (.load none org) = c := by
  show c.loadBin none org = c
  unfold Cpu.loadBin Bus.loadBin
  split <;> simp_all
  all_goals (split at * <;> simp_all)

/-- "once a ROM range has been declared": after ANY earlier history (stores into what will become ROM,
    earlier declarations, loads, ...) and a declaration [s, e], whatever follows leaves the bytes of [s, e]
    exactly as they were at the moment of the declaration -/
theorem C07_run_redeclare (c : Cpu) (es1 es2 : List Event) (s e : UInt16)
    (hr : ∀ ev ∈ es2, ev.isSetRom = false ∧ ev.overwrites = false)
    (x : UInt16) (hx : s ≤ x ∧ x ≤ e) :
    (run c (es1 ++ [.setRom s e] ++ es2)).arch.bus.readByte x = (run c (es1 ++ [.setRom s e])).arch.bus.readByte x := by
  rw [run_append]
  apply (C07_run _ es2 hr x _).1
  rw [run_append]
  show Bus.inRom (Bus.setRomspace _ s e) x = true
  simp [Bus.inRom, Bus.setRomspace, hx.1, hx.2]

/-- the shapes of a declaration: a one-byte range protects exactly that byte, and a range with start > end protects
    nothing (it is the way to un-declare ROM) - in particular it does not wrap around the address space -/
theorem C07_range_shapes (b : Bus) (a s e x : UInt16) :
    ((b.setRomspace a a).inRom x = true ↔ x = a) ∧ (e < s → (b.setRomspace s e).inRom x = false) := by
  constructor
  · simp only [Bus.inRom, Bus.setRomspace, Bool.and_eq_true, decide_eq_true_eq]
    constructor
    · intro h; exact UInt16.le_antisymm h.2 h.1
    · intro h; subst h; exact ⟨UInt16.le_refl _, UInt16.le_refl _⟩
  · intro h
    simp only [Bus.inRom, Bus.setRomspace, Bool.and_eq_false_iff, decide_eq_false_iff_not]
    by_cases h1 : s ≤ x
    · right
      intro h2
      exact absurd (UInt16.lt_of_lt_of_le h h1) (UInt16.not_lt.mpr h2)
    · left; exact h1

/-- non-vacuity: a word store straddling the start of a ROM window keeps the ROM byte and lands the RAM byte -/
example : let b := (Bus.new 7).setRomspace 4 5
    b.inRom 4 = true ∧ (b.writeWord 3 0xBEEF).readByte 4 = 0 ∧ (b.writeWord 3 0xBEEF).readByte 3 = 0xEF ∧
    (b.writeWord 5 0xBEEF).readByte 6 = 0xBE ∧ (b.writeWord 5 0xBEEF).readByte 5 = 0 := by decide

end Z80
