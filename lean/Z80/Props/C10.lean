/-
  C10 — IX and IY forms of an instruction behave identically up to renaming.
  `swapI` renames IX <-> IY (and IXH/IXL <-> IYH/IYL) inside an instruction, `Arch.swapXY`
  exchanges the contents of IX and IY in a state.  For every second byte (DD/FD page), every fourth
  byte and displacement (DDCB/FDCB page), every operand byte and every machine state.
-/
import Z80.Lemmas.Swap
namespace Z80

/-- DD/FD page: whenever the FD row is implemented, it is the DD row with IX renamed to IY, and has
    the same length.  (The four rows INC/DEC IXH/IXL exist for IX only; the property excludes them.) -/
theorem C10_decode (op b2 b3 : UInt8) (h : (decodeIdx .iy op b2 b3).1 ≠ .unknown) :
    (decodeIdx .iy op b2 b3).1 = swapI (decodeIdx .ix op b2 b3).1 ∧
    (decodeIdx .iy op b2 b3).2 = (decodeIdx .ix op b2 b3).2 := by
  rw [decodeIdx_swap op b2 b3 h]; exact ⟨rfl, rfl⟩

/-- DDCB/FDCB page: every row, every displacement -/
theorem C10_decode_cb (d op : UInt8) :
    (decodeIdxCB .iy d op).1 = swapI (decodeIdxCB .ix d op).1 ∧ (decodeIdxCB .iy d op).2 = (decodeIdxCB .ix d op).2 := by
  rw [decodeIdxCB_swap d op]; exact ⟨rfl, rfl⟩

/-- executing the renamed instruction in the exchanged state gives the exchanged result: registers,
    flags, memory, PC, control state — one equation on the whole architectural state -/
theorem C10_exec (i : Instr) (len : UInt16) (a : Arch) : exec (swapI i) len a.swapXY = (exec i len a).swapXY :=
  exec_swap i len a

/-- exchanging twice is the identity, so this reads: FD form in the exchanged state, exchanged again
    = DD form -/
theorem C10_exec_back (i : Instr) (len : UInt16) (a : Arch) : (exec (swapI i) len a.swapXY).swapXY = exec i len a := by
  rw [exec_swap]; rfl

/-- the reported T-states agree: both pages read the same table row, and the conditional
    increments and the DDCB/FDCB constants do not look at the register names -/
theorem C10_cycles (i : Instr) (len : UInt16) (op : UInt8) (a : Arch) (hu : i ≠ .unknown) :
    instrCycles ⟨swapI i, len, .fd, op⟩ a.swapXY = instrCycles ⟨i, len, .dd, op⟩ a ∧
    instrCycles ⟨swapI i, len, .fdcb, op⟩ a.swapXY = instrCycles ⟨i, len, .ddcb, op⟩ a := by
  have hu' : swapI i ≠ .unknown := by cases i <;> simp_all [swapI]
  simp only [instrCycles, hu, hu', ↓reduceIte, tableCycles]
  constructor <;> (cases i <;> simp_all [swapI, extraCycles, taken] <;> rfl)

/-- non-vacuity: LD A,(IX-1) / LD A,(IY-1) -/
example : (decodeIdx .ix 0x7E 0xFF 0).1 = .ld8 (.reg .a) (.loc (.mem (.idx .ix 0xFF))) ∧
    (decodeIdx .iy 0x7E 0xFF 0).1 = .ld8 (.reg .a) (.loc (.mem (.idx .iy 0xFF))) ∧
    (decodeIdx .iy 0x24 0 0).1 = .unknown := by decide

end Z80
