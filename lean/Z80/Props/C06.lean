/-
  C06 — No machine state aborts the emulator; 16-bit addresses wrap like hardware.
  What is a theorem here: every address computation of the model is the modular one, for all
  2^24 (base, displacement) pairs and every address, including 0xFFFF and the top address of any
  memory size; and the model functions are total (they are Lean functions without an error value:
  `step`, `dasm`, every bus accessor are defined on every state, size and address).
  What is NOT a theorem: that the Rust code does not panic.  A hand-written model does not contain
  the implementation's arithmetic sites; an abort is an observable outcome of the correspondence
  run (overflow-checked and wrapping builds), and the model never produces one.
-/
import Z80.Lemmas.Pc
import Z80.Lemmas.Bus
import Z80.Lemmas.Tables2
namespace Z80

/-- indexed effective address = IX/IY + sign-extended displacement modulo 65,536 -/
theorem C06_indexed (a : Arch) (d : UInt8) :
    a.addrOf (.idx .ix d) = a.reg.getIX + sext d ∧ a.addrOf (.idx .iy d) = a.reg.getIY + sext d :=
  ⟨displace_eq _ _, displace_eq _ _⟩

/-- relative-jump target (interpreter and disassembler) = address + 2 + sign-extended displacement -/
theorem C06_relative (pc : UInt16) (e : UInt8) :
    relTarget pc e = pc + 2 + sext e ∧ dasmRel pc e = pc + 2 + sext e := ⟨relTarget_eq _ _, dasmRel_eq _ _⟩

/-- sign extension really is two's complement: e < 128 counts forwards, e >= 128 backwards by 256 - e -/
theorem C06_sext (pc : UInt16) (e : UInt8) :
    (pc + sext e).toNat = (if e.toNat < 128 then pc.toNat + e.toNat else pc.toNat + 65536 - (256 - e.toNat)) % 65536 := by
  have h : ∀ e : UInt8, (sext e).toNat = if e.toNat < 128 then e.toNat else 65536 - (256 - e.toNat) := by
    intro e
    have := forall_u8 (p := fun e => (sext e).toNat == if e.toNat < 128 then e.toNat else 65536 - (256 - e.toNat)) (by decide +kernel) e
    simpa using this
  rw [UInt16.toNat_add, h]
  have := e.toNat_lt
  split <;> simp <;> omega

/-- operand fetches, PC advance and stack accesses are plain modular additions -/
theorem C06_fetch_and_stack (a : Arch) (w : UInt16) :
    (decode a.bus a.reg.pc (firstByte a)).len.toNat ≤ 4 ∧
    (a.pushWord w).reg.sp = a.reg.sp - 2 ∧ a.popWord.2.reg.sp = a.reg.sp + 2 := by
  exact ⟨(decode_len _ _ _).2, rfl, rfl⟩

/-- word access at 0xFFFF and at the top address: the second byte comes from address 0 / reads 0 -/
theorem C06_word_edges (b : Bus) :
    b.readWord 0xFFFF = mkWord (b.readByte 0) (b.readByte 0xFFFF) ∧
    (∀ a : UInt16, a.toNat + 1 = b.mem.size → a ≠ 0xFFFF → b.readWord a = mkWord 0 (b.readByte a)) := by
  refine ⟨rfl, ?_⟩
  intro a h hne
  unfold Bus.readWord
  rw [Bus.readByte_above_top b (a + 1)]
  rw [UInt16.toNat_add]
  have : a.toNat ≠ 65535 := fun hh => hne (UInt16.toNat_inj.mp (by simpa using hh))
  have := a.toNat_lt
  simp; omega

/-- the model is total: every state has an outcome, every address a disassembly, every access a value -/
theorem C06_total (c : Cpu) (addr : UInt16) :
    (∃ r, step c = r) ∧ (∃ t, dasm c.arch addr = t) ∧ (∃ v, c.arch.bus.readLeDword addr = v) :=
  ⟨⟨_, rfl⟩, ⟨_, rfl⟩, ⟨_, rfl⟩⟩

/-- non-vacuity: LD A,(IX-1) with IX = 0 reads 0xFFFF; JR -2 at 0x0000 stays at 0x0000 -/
example : displace 0 0xFF = 0xFFFF ∧ relTarget 0 0xFE = 0 ∧ relTarget 0xFFFF 0x7F = 0x0080 := by decide

end Z80
