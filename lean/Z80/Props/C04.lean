/-
  C04 — Reported T-states match Zilog timing for every documented instruction.
  `Spec.timing` is the per-class figure of the Zilog manual (taken / not taken), written
  independently of the interpreter's four tables; `instrCycles` is what the interpreter returns
  (table entry + conditional increment).  For every architectural state.
-/
import Z80.Lemmas.TableRows
import Z80.Lemmas.Block
import Z80.Lemmas.Plain
namespace Z80

abbrev decoded4 (a : Arch) : Decoded := decode a.bus a.reg.pc (firstByte a)

/-- every documented instruction except the four block repeats: the count returned by the step is
    the published one, for the branch outcome of this state -/
theorem C04_step_partial (a : Arch) (hr : IsRow (decoded4 a))
    (hd : Spec.documented (decoded4 a).page (decoded4 a).op = true) (hio : Spec.io (decoded4 a).page (decoded4 a).op = false)
    (hb : Spec.isBlockRepeat (decoded4 a).instr = false) :
    Spec.timing (decoded4 a).page (decoded4 a).instr (taken (decoded4 a).instr a) = some (dispatch a).2.1.toNat := by
  have hdoc : docNonIo (decoded4 a).page (decoded4 a).op = true := by simp [docNonIo, hd, hio]
  have himpl := isRow_doc_impl _ hr hdoc
  have hrow := isRow_timing _ hr
  have hc : (dispatch a).2.1 = instrCycles (decoded4 a) a := rfl
  rw [hc]
  simp only [decoded4] at *
  generalize decode a.bus a.reg.pc (firstByte a) = d at *
  simp only [timingRowOk, hdoc, hb, Bool.not_true, Bool.false_or, Bool.and_eq_true, beq_iff_eq] at hrow
  simp only [instrCycles, himpl, ↓reduceIte]
  have e : ∀ tk, rowCycles d.page d.op d.instr tk = (tableCycles d + extraCycles d.instr tk).toNat := by
    intro tk; rfl
  cases htk : taken d.instr a
  · rw [hrow.2, e]
  · rw [hrow.1, e]

/-- the same at the level of `CPU::execute` for a step with nothing pending and no halt -/
theorem C04_execute_partial (c : Cpu) (hq : c.arch.quiet) (hr : IsRow (decoded4 c.arch))
    (hd : Spec.documented (decoded4 c.arch).page (decoded4 c.arch).op = true)
    (hio : Spec.io (decoded4 c.arch).page (decoded4 c.arch).op = false)
    (hb : Spec.isBlockRepeat (decoded4 c.arch).instr = false) :
    Spec.timing (decoded4 c.arch).page (decoded4 c.arch).instr (taken (decoded4 c.arch).instr c.arch) = some (step c).2.toNat := by
  have : (step c).2 = (dispatch c.arch).2.1 := by
    show (stepArch c.arch).2.1 = _
    rw [stepArch_quiet _ hq]
  rw [this]; exact C04_step_partial c.arch hr hd hio hb

/-- the count depends on the data only through the branch outcome: two states that decode the same
    row with the same outcome report the same count -/
theorem C04_data_independent (a a' : Arch) (h1 : decoded4 a = decoded4 a')
    (h2 : taken (decoded4 a).instr a = taken (decoded4 a').instr a') : (dispatch a).2.1 = (dispatch a').2.1 := by
  have hc : ∀ x : Arch, (dispatch x).2.1 = instrCycles (decoded4 x) x := fun _ => rfl
  rw [hc, hc]
  simp only [instrCycles]
  rw [h2, h1]

/-- each step spent halted reports 4 T-states -/
theorem C04_halted (a : Arch) (h : (a.halt && !a.wakes) = true) : (stepArch a).2.1 = 4 := by
  simp [stepArch, h]

/-- the distinct counts of the conditional instructions, spelled out -/
theorem C04_conditionals (cc : Cc) (e : UInt8) (nn : UInt16) :
    Spec.timing .base (.jrcc cc e) true = some 12 ∧ Spec.timing .base (.jrcc cc e) false = some 7 ∧
    Spec.timing .base (.djnz e) true = some 13 ∧ Spec.timing .base (.djnz e) false = some 8 ∧
    Spec.timing .base (.callcc cc nn) true = some 17 ∧ Spec.timing .base (.callcc cc nn) false = some 10 ∧
    Spec.timing .base (.retcc cc) true = some 11 ∧ Spec.timing .base (.retcc cc) false = some 5 :=
  ⟨rfl, rfl, rfl, rfl, rfl, rfl, rfl, rfl⟩

/-! ### block repeats: the full statement is false of the code (known finding)

  Zilog: 21 T-states for every iteration that repeats, 16 for the last one; a step that runs the
  whole loop of k iterations therefore takes `Spec.blockTiming k = 21 (k-1) + 16`.  The interpreter
  returns the table entry 21 whatever k is (and the repository's own tests pin that value). -/

/-- the full-strength statement for block repeats (NOT provable, see the witness below) -/
def C04_block_repeat_statement : Prop :=
  ∀ a : Arch, (decoded4 a).instr = .ldir →
    (dispatch a).2.1.toNat = Spec.blockTiming (blockCount a.reg.getBC)

/-- witness: LDIR with BC = 1 — the interpreter (and the model) report 21, Zilog publishes 16 -/
theorem C04_block_repeat_witness : ¬ C04_block_repeat_statement := by
  intro h
  have := h { bus := { mem := #[0xED, 0xB0, 0, 0] }, reg := { b := 0, c := 1, h := 0, l := 2, d := 0, e := 3 } } (by decide)
  revert this; decide +kernel

/-- the extent of the finding, exactly: for the four repeating encodings the reported count is the constant 21 in
    every state, and Zilog's figure is never 21 (it is 16 for one iteration and at least 37 for more), so the
    count is wrong for every iteration count - and for nothing else (`C04_step_partial` covers every other
    documented encoding) -/
theorem C04_block_repeat_extent (i : Instr) (len : UInt16) (a : Arch) :
    (tableCycles ⟨i, len, .ed, 0xB0⟩ = 21 ∧ tableCycles ⟨i, len, .ed, 0xB8⟩ = 21 ∧
     tableCycles ⟨i, len, .ed, 0xB1⟩ = 21 ∧ tableCycles ⟨i, len, .ed, 0xB9⟩ = 21) ∧
    extraCycles .ldir (taken .ldir a) = 0 ∧ extraCycles .lddr (taken .lddr a) = 0 ∧
    extraCycles .cpir (taken .cpir a) = 0 ∧ extraCycles .cpdr (taken .cpdr a) = 0 ∧
    ∀ k, 0 < k → Spec.blockTiming k ≠ 21 := by
  have ht : ∀ op : UInt8, (cyclesED.getD op.toNat 0).toUInt32 = 21 → tableCycles ⟨i, len, .ed, op⟩ = 21 := fun _ h => h
  refine ⟨⟨ht _ (by decide +kernel), ht _ (by decide +kernel), ht _ (by decide +kernel), ht _ (by decide +kernel)⟩, rfl, rfl, rfl, rfl, ?_⟩
  intro k hk h
  unfold Spec.blockTiming at h
  omega

/-- non-vacuity of the partial theorem's hypotheses: `JR Z,e` untaken is documented, non-I/O, not a block repeat -/
example :
    let a : Arch := { bus := { mem := #[0x28, 0x05] } }
    IsRow (decoded4 a) ∧ Spec.documented (decoded4 a).page (decoded4 a).op = true ∧ (dispatch a).2.1 = 7 := by
  refine ⟨⟨by decide, 5, 0, by decide⟩, by decide, by decide +kernel⟩

end Z80
