/-
  C12 — With interrupts disabled a pending maskable request does not disturb execution.
  For every architectural state `a` (any instruction at PC incl. RST, CALL, HALT; halted or not; NMI
  pending or not; any mode; IFF2 either way) with IFF1 clear, and every request byte `b`.
-/
import Z80.Model.Step
namespace Z80

/-- what `execute` hands to the dispatcher does not depend on a masked request -/
theorem C12_pre (a : Arch) (b : UInt8) (h : a.iff1 = false) :
    preDispatch { a with int := some b } = preDispatch { a with int := none } := by
  cases hh : a.halt <;> cases hn : a.nmi <;>
    simp [preDispatch, wake, takeNmi, takeInt, acceptNmi, Arch.setPC, Arch.pushWord, h, hh, hn]

/-- the step with the masked request pending = the step without it: same registers, flags, memory
    (hence stack contents), PC, control state and T-states.  Only a halted, un-woken CPU keeps the
    request latched, which is the one field left out (`int`). -/
theorem C12_step (a : Arch) (b : UInt8) (h : a.iff1 = false) :
    let r1 := stepArch { a with int := some b }
    let r0 := stepArch { a with int := none }
    { r1.1 with int := none } = { r0.1 with int := none } ∧ r1.2.1 = r0.2.1 ∧ r1.2.2 = r0.2.2 := by
  have hw : ({ a with int := some b } : Arch).wakes = ({ a with int := none } : Arch).wakes := by
    simp [Arch.wakes, h]
  simp only [stepArch, hw, C12_pre a b h]
  split <;> simp

/-- when the CPU is not idling in a halt the two outcomes are equal in every field -/
theorem C12_step_running (a : Arch) (b : UInt8) (h : a.iff1 = false) (hr : a.halt = false ∨ a.nmi = true) :
    stepArch { a with int := some b } = stepArch { a with int := none } := by
  have hw : ({ a with int := some b } : Arch).wakes = ({ a with int := none } : Arch).wakes := by
    simp [Arch.wakes, h]
  have hnot : (({ a with int := none } : Arch).halt && !({ a with int := none } : Arch).wakes) = false := by
    rcases hr with hr | hr <;> simp [Arch.wakes, hr]
  have hnot1 : (({ a with int := some b } : Arch).halt && !({ a with int := some b } : Arch).wakes) = false := by
    rw [hw]; exact hnot
  simp only [stepArch, hnot, hnot1, C12_pre a b h, Bool.false_eq_true, ↓reduceIte]

/-- at the level of `CPU::execute`: registers, flags, memory, T-states and diagnostics agree -/
theorem C12_execute (c : Cpu) (b : UInt8) (h : c.arch.iff1 = false) :
    let c1 := step { c with arch := { c.arch with int := some b } }
    let c0 := step { c with arch := { c.arch with int := none } }
    c1.1.arch.reg = c0.1.arch.reg ∧ c1.1.arch.alt = c0.1.arch.alt ∧ c1.1.arch.bus = c0.1.arch.bus ∧
    c1.1.arch.halt = c0.1.arch.halt ∧ c1.1.arch.iff1 = c0.1.arch.iff1 ∧ c1.1.arch.iff2 = c0.1.arch.iff2 ∧
    c1.1.arch.im = c0.1.arch.im ∧ c1.1.arch.nmi = c0.1.arch.nmi ∧ c1.2 = c0.2 ∧ c1.1.debug = c0.1.debug := by
  obtain ⟨h1, h2, h3⟩ := C12_step c.arch b h
  simp only [step] at *
  have e := congrArg (fun (x : Arch) => (x.reg, x.alt, x.bus, x.halt, x.iff1, x.iff2, x.im, x.nmi)) h1
  simp only [Prod.mk.injEq] at e
  obtain ⟨e1, e2, e3, e4, e5, e6, e7, e8⟩ := e
  exact ⟨e1, e2, e3, e4, e5, e6, e7, e8, h2, by rw [h3]⟩

/-- timed stepping does not see the masked request either: same request for a sleep, same slice counters
    (nothing is booked for a request that is not accepted), same architectural outcome -/
theorem C12_timed (c : Cpu) (b : UInt8) (el : Option UInt32) (h : c.arch.iff1 = false) :
    let t1 := executeTimed { c with arch := { c.arch with int := some b } } el
    let t0 := executeTimed { c with arch := { c.arch with int := none } } el
    t1.2 = t0.2 ∧ t1.1.slice = t0.1.slice ∧ t1.1.debug = t0.1.debug ∧
    ({ t1.1.arch with int := none } : Arch) = { t0.1.arch with int := none } := by
  obtain ⟨h1, h2, h3⟩ := C12_step c.arch b h
  have e2 : (step { c with arch := { c.arch with int := some b } }).2 = (step { c with arch := { c.arch with int := none } }).2 := h2
  have e3 : (step { c with arch := { c.arch with int := some b } }).1.debug =
      (step { c with arch := { c.arch with int := none } }).1.debug := by
    show updateDebug c.debug _ = updateDebug c.debug _
    rw [h3]
  refine ⟨rfl, ?_, e3, h1⟩
  simp only [executeTimed, sliceFires]
  rw [e2]
  rfl

/-- non-vacuity: RST 10 fetched from memory with a masked request pending pushes the following address -/
example :
    let a : Arch := { bus := { mem := #[0xD7, 0, 0, 0, 0, 0, 0, 0] }, reg := { sp := 8 }, int := some 0xCF, iff1 := false }
    (stepArch a).1.reg.pc = 0x10 ∧ (stepArch a).1.bus.mem = #[0xD7, 0, 0, 0, 0, 0, 1, 0] := by decide

end Z80
