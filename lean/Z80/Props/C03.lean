/-
  C03 — PC, branch conditions and call/return linkage follow Z80 control-flow rules.
  For every instruction, every flag byte, every displacement, every PC/SP (UInt16 arithmetic is
  modulo 65,536, so the ends of the address space are included).  `len` is the encoded length
  that `decode` reports; C15/C05 relate it to the bytes.
-/
import Z80.Lemmas.Pc
import Z80.Lemmas.Bus
import Z80.Lemmas.Word
import Z80.Lemmas.Nest
import Z80.Lemmas.Plain
namespace Z80

/-- every non-transfer instruction: PC := address + encoded length -/
theorem C03_sequential (i : Instr) (len : UInt16) (a : Arch) (h : transfers i = false) :
    (exec i len a).reg.pc = a.reg.pc + len := exec_pc_seq i len a h

/-- the eight conditions test exactly Z, C, P/V, S -/
theorem C03_conditions (f : Flags) :
    condHolds f .nz = !f.z ∧ condHolds f .z = f.z ∧ condHolds f .nc = !f.c ∧ condHolds f .c = f.c ∧
    condHolds f .po = !f.p ∧ condHolds f .pe = f.p ∧ condHolds f .p = !f.s ∧ condHolds f .m = f.s :=
  ⟨rfl, rfl, rfl, rfl, rfl, rfl, rfl, rfl⟩

/-- unconditional and conditional absolute jumps -/
theorem C03_jp (cc : Cc) (nn len : UInt16) (a : Arch) :
    (exec (.jp nn) len a).reg.pc = nn ∧
    (exec (.jpcc cc nn) len a).reg.pc = (if condHolds a.reg.flags cc then nn else a.reg.pc + len) := by
  refine ⟨rfl, ?_⟩
  simp only [exec]; split <;> rfl

/-- relative jumps: target = address of the following instruction + signed displacement -/
theorem C03_jr (cc : Cc) (e : UInt8) (len : UInt16) (a : Arch) :
    (exec (.jr e) len a).reg.pc = a.reg.pc + 2 + sext e ∧
    (exec (.jrcc cc e) len a).reg.pc = (if condHolds a.reg.flags cc then a.reg.pc + 2 + sext e else a.reg.pc + len) := by
  refine ⟨relTarget_eq _ _, ?_⟩
  simp only [exec]; split <;> simp [relTarget_eq]

/-- DJNZ: B := B - 1, jump exactly when the new B is not zero -/
theorem C03_djnz (e : UInt8) (len : UInt16) (a : Arch) :
    (exec (.djnz e) len a).reg.b = a.reg.b - 1 ∧
    (exec (.djnz e) len a).reg.pc = (if a.reg.b - 1 ≠ 0 then a.reg.pc + 2 + sext e else a.reg.pc + len) := by
  simp only [exec]
  by_cases h : a.reg.b - 1 = 0
  · simp only [h, bne_self_eq_false, Bool.false_eq_true, ↓reduceIte, ne_eq, not_true_eq_false]
    exact ⟨h.symm ▸ rfl, rfl⟩
  · have : (a.reg.b - 1 != 0) = true := by simpa using h
    simp only [this, ↓reduceIte, ne_eq, h, not_false_eq_true, relTarget_eq]
    exact ⟨rfl, rfl⟩

/-- JP (HL) / (IX) / (IY) -/
theorem C03_jp_reg (r : R16) (len : UInt16) (a : Arch) : (exec (.jpR r) len a).reg.pc = a.reg.get16 r := rfl

private theorem succ_ne (a : UInt16) : a ≠ a + 1 := by
  intro h; have := congrArg UInt16.toNat h; simp [UInt16.toNat_add] at this; omega

/-- the linkage of a push: SP := SP - 2, low byte at SP, high byte at SP + 1 (both writable) -/
theorem pushWord_linkage (a : Arch) (w : UInt16) (h0 : a.bus.writable (a.reg.sp - 2)) (h1 : a.bus.writable (a.reg.sp - 2 + 1)) :
    (a.pushWord w).reg.sp = a.reg.sp - 2 ∧ (a.pushWord w).bus.readByte (a.reg.sp - 2) = loByte w ∧
    (a.pushWord w).bus.readByte (a.reg.sp - 2 + 1) = hiByte w ∧ (a.pushWord w).bus.readWord (a.reg.sp - 2) = w := by
  have e0 : (a.bus.writeWord (a.reg.sp - 2) w).readByte (a.reg.sp - 2) = loByte w := by
    unfold Bus.writeWord
    rw [Bus.readByte_writeByte_other _ _ _ _ (succ_ne _), Bus.readByte_writeByte_same _ _ _ h0]
  have e1 : (a.bus.writeWord (a.reg.sp - 2) w).readByte (a.reg.sp - 2 + 1) = hiByte w := by
    unfold Bus.writeWord
    rw [Bus.readByte_writeByte_same, shr8_eq_hiByte]
    exact ⟨by simpa using h1.1, by simpa using h1.2⟩
  refine ⟨rfl, e0, e1, ?_⟩
  show mkWord ((a.bus.writeWord (a.reg.sp - 2) w).readByte (a.reg.sp - 2 + 1))
    ((a.bus.writeWord (a.reg.sp - 2) w).readByte (a.reg.sp - 2)) = w
  rw [e0, e1, mkWord_hi_lo]

/-- CALL nn / RST p: the address of the following instruction is stored low byte first at SP-2 -/
theorem C03_call (nn len : UInt16) (a : Arch) (h0 : a.bus.writable (a.reg.sp - 2)) (h1 : a.bus.writable (a.reg.sp - 2 + 1)) :
    let r := exec (.call nn) len a
    r.reg.pc = nn ∧ r.reg.sp = a.reg.sp - 2 ∧ r.bus.readByte (a.reg.sp - 2) = loByte (a.reg.pc + len) ∧
    r.bus.readByte (a.reg.sp - 2 + 1) = hiByte (a.reg.pc + len) := by
  obtain ⟨p1, p2, p3, _⟩ := pushWord_linkage a (a.reg.pc + len) h0 h1
  exact ⟨rfl, p1, p2, p3⟩

theorem C03_rst (v len : UInt16) (a : Arch) (h0 : a.bus.writable (a.reg.sp - 2)) (h1 : a.bus.writable (a.reg.sp - 2 + 1)) :
    let r := exec (.rst v) len a
    r.reg.pc = v ∧ r.reg.sp = a.reg.sp - 2 ∧ r.bus.readByte (a.reg.sp - 2) = loByte (a.reg.pc + len) ∧
    r.bus.readByte (a.reg.sp - 2 + 1) = hiByte (a.reg.pc + len) := by
  obtain ⟨p1, p2, p3, _⟩ := pushWord_linkage a (a.reg.pc + len) h0 h1
  exact ⟨rfl, p1, p2, p3⟩

/-- CALL cc: taken exactly when the condition holds, otherwise sequential and nothing is pushed -/
theorem C03_call_cc (cc : Cc) (nn len : UInt16) (a : Arch) :
    exec (.callcc cc nn) len a = (if condHolds a.reg.flags cc then exec (.call nn) len a else a.setPC (a.reg.pc + len)) := by
  simp only [exec]

/-- RET / RETI / RETN reload PC from the stack (low byte first) and add 2 to SP; RET cc when taken -/
theorem C03_ret (cc : Cc) (len : UInt16) (a : Arch) :
    (exec .ret len a).reg.pc = a.bus.readWord a.reg.sp ∧ (exec .ret len a).reg.sp = a.reg.sp + 2 ∧
    (exec .reti len a).reg.pc = a.bus.readWord a.reg.sp ∧ (exec .reti len a).reg.sp = a.reg.sp + 2 ∧
    (exec .retn len a).reg.pc = a.bus.readWord a.reg.sp ∧ (exec .retn len a).reg.sp = a.reg.sp + 2 ∧
    exec (.retcc cc) len a = (if condHolds a.reg.flags cc then exec .ret len a else a.setPC (a.reg.pc + len)) := by
  refine ⟨rfl, rfl, rfl, rfl, rfl, rfl, ?_⟩
  simp only [exec]

/-- a CALL followed (after anything that leaves the two stack bytes and SP alone) by RET comes back to
    the instruction after the CALL with SP restored -/
theorem C03_call_ret (nn len l2 : UInt16) (a : Arch) (h0 : a.bus.writable (a.reg.sp - 2)) (h1 : a.bus.writable (a.reg.sp - 2 + 1)) :
    (exec .ret l2 (exec (.call nn) len a)).reg.pc = a.reg.pc + len ∧
    (exec .ret l2 (exec (.call nn) len a)).reg.sp = a.reg.sp := by
  obtain ⟨_, _, _, p4⟩ := pushWord_linkage a (a.reg.pc + len) h0 h1
  constructor
  · show ((a.pushWord (a.reg.pc + len)).setPC nn).bus.readWord ((a.pushWord (a.reg.pc + len)).setPC nn).reg.sp = _
    exact p4
  · show a.reg.sp - 2 + 2 = a.reg.sp
    apply UInt16.eq_of_toBitVec_eq; simp

/-- call/return nesting of ANY depth n (2n <= 65,536 so that the stack does not wrap onto itself):
    n CALLs, each executed where the previous one landed, then n RETs: SP is restored, no byte
    outside the 2n stack bytes has changed, and control is back at the instruction after the first
    CALL.  Hypothesis: the 2n bytes below SP are writable (inside memory, outside ROM). -/
theorem C03_nest (l : List (UInt16 × UInt16)) (a : Arch) (hn : 2 * l.length ≤ 65536)
    (hw : ∀ addr, inStack a.reg.sp l.length addr → a.bus.writable addr) :
    let s := iter (exec .ret 1) l.length (calls a l)
    s.reg.sp = a.reg.sp ∧ (∀ addr, ¬ inStack a.reg.sp l.length addr → s.bus.readByte addr = a.bus.readByte addr) ∧
    (∀ nn len rest, l = (nn, len) :: rest → s.reg.pc = a.reg.pc + len) := by
  obtain ⟨h1, h2, _, h4⟩ := nest l a hn hw
  exact ⟨h1, h2, h4⟩

/-- at the level of `CPU::execute`: with nothing pending and no halt, a step of a non-transfer
    instruction ends with PC = address + the length of the instruction encoded there -/
theorem C03_step_sequential (c : Cpu) (hq : c.arch.quiet)
    (ht : transfers (decode c.arch.bus c.arch.reg.pc (c.arch.bus.readByte c.arch.reg.pc)).instr = false) :
    (step c).1.arch.reg.pc = c.arch.reg.pc + (decode c.arch.bus c.arch.reg.pc (c.arch.bus.readByte c.arch.reg.pc)).len := by
  show (stepArch c.arch).1.reg.pc = _
  rw [stepArch_quiet _ hq, dispatch_quiet _ hq]
  exact exec_pc_seq _ _ _ ht

/-- non-vacuity: CALL at 0xFFFE pushes 0x0001 (address arithmetic wraps) -/
example :
    let a : Arch := { bus := { mem := #[0, 0, 0, 0] }, reg := { pc := 0xFFFE, sp := 4 } }
    (exec (.call 0x1234) 3 a).bus.mem = #[0, 0, 0x01, 0x00] ∧ (exec (.call 0x1234) 3 a).reg.pc = 0x1234 := by decide

end Z80
