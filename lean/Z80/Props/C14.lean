/-
  C14 — HALT idles without side effects until an interrupt resumes after it.
  For every architectural state; `a.reg.pc` of a halted CPU is the address of the HALT itself
  (the instruction does not advance PC), `pc + 1` the address of the following instruction.
-/
import Z80.Lemmas.Block
import Z80.Lemmas.Nest
import Z80.Model.Step
namespace Z80

/-- HALT sets the halt latch and changes nothing else (PC stays on the HALT) -/
theorem C14_enter (len : UInt16) (a : Arch) : exec .halt len a = { a with halt := true } := rfl

/-- a step spent halted with no acceptable request reports 4 T-states and changes nothing -/
theorem C14_idle (a : Arch) (hh : a.halt = true) (hn : a.nmi = false) (hi : a.int = none ∨ a.iff1 = false) :
    stepArch a = (a, 4, none) := by
  have : (a.halt && !a.wakes) = true := by
    rcases hi with hi | hi <;> simp [Arch.wakes, hh, hn, hi]
  simp [stepArch, this]

/-- ... for any number of idle steps -/
theorem C14_idle_n (n : Nat) (a : Arch) (hh : a.halt = true) (hn : a.nmi = false) (hi : a.int = none ∨ a.iff1 = false) :
    iter (fun s => (stepArch s).1) n a = a := by
  induction n with
  | zero => rfl
  | succ n ih => simp only [iter]; rw [C14_idle a hh hn hi]; exact ih

/-- a non-maskable request ends the halt: the handler at 0x0066 is entered with the address after
    the HALT pushed, IFF1 saved to IFF2 and cleared; a simultaneous maskable request is dropped -/
theorem C14_wake_nmi (a : Arch) (hh : a.halt = true) (hn : a.nmi = true) :
    preDispatch a =
      { ((({ a with halt := false } : Arch).pushWord (a.reg.pc + 1)).setPC 0x0066) with
          iff2 := a.iff1, iff1 := false, nmi := false, int := none } ∧
    (stepArch a).1 = (dispatch (preDispatch a)).1 := by
  constructor
  · simp [preDispatch, wake, takeNmi, takeInt, acceptNmi, Arch.setPC, Arch.pushWord, hh, hn]
  · simp [stepArch, Arch.wakes, hh, hn]

/-- an enabled maskable request ends the halt: acceptance happens in the state whose PC is the
    address after the HALT, so that is the return address pushed by the RST / the mode-2 vectoring -/
theorem C14_wake_int (a : Arch) (b : UInt8) (hh : a.halt = true) (hn : a.nmi = false) (hi : a.iff1 = true)
    (hb : a.int = some b) :
    preDispatch a = acceptInt { a.setPC (a.reg.pc + 1) with halt := false } b ∧
    (stepArch a).1 = (dispatch (preDispatch a)).1 ∧ (preDispatch a).halt = false := by
  have h1 : preDispatch a = acceptInt { a.setPC (a.reg.pc + 1) with halt := false } b := by
    simp [preDispatch, wake, takeNmi, takeInt, Arch.setPC, hh, hn, hi, hb]
  refine ⟨h1, by simp [stepArch, Arch.wakes, hh, hn, hi, hb], ?_⟩
  rw [h1]; unfold acceptInt; split
  · rfl
  · split <;> rfl

/-- so that returning continues after the HALT: NMI wake-up followed by RETN lands on HALT + 1 with SP
    restored (the two stack bytes must be writable) -/
theorem C14_resume_after_halt (a : Arch) (len : UInt16) (hh : a.halt = true) (hn : a.nmi = true)
    (h0 : a.bus.writable (a.reg.sp - 2)) (h1 : a.bus.writable (a.reg.sp - 2 + 1)) :
    (exec .retn len (preDispatch a)).reg.pc = a.reg.pc + 1 ∧ (exec .retn len (preDispatch a)).reg.sp = a.reg.sp ∧
    (exec .retn len (preDispatch a)).halt = false := by
  rw [(C14_wake_nmi a hh hn).1]
  refine ⟨?_, ?_, rfl⟩
  · show (({ a with halt := false } : Arch).pushWord (a.reg.pc + 1)).bus.readWord (a.reg.sp - 2) = _
    exact pushWord_spec { a with halt := false } (a.reg.pc + 1) h0 h1
  · show a.reg.sp - 2 + 2 = a.reg.sp
    apply UInt16.eq_of_toBitVec_eq; simp

/-- a maskable request while interrupts are disabled does not end the halt -/
theorem C14_masked (a : Arch) (b : UInt8) (hh : a.halt = true) (hn : a.nmi = false) (hi : a.iff1 = false) :
    stepArch { a with int := some b } = ({ a with int := some b }, 4, none) :=
  C14_idle _ hh hn (Or.inr hi)

/-- non-vacuity: HALT at 0xFFFF on a 64 KiB bus woken by NMI pushes 0x0000 -/
example :
    let a : Arch := { bus := { mem := #[0, 0, 0, 0] }, reg := { pc := 0xFFFF, sp := 4 }, halt := true, nmi := true }
    (preDispatch a).reg.pc = 0x66 ∧ (preDispatch a).bus.mem = #[0, 0, 0, 0] ∧ (preDispatch a).reg.sp = 2 := by decide

end Z80
