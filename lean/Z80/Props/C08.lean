/-
  C08 — Bus access respects the configured size; words compose byte accesses.
  `b` is any bus: any size (`b.mem.size` = top address + 1, also sizes the constructor cannot
  produce), any ROM window; `writable` = at or below the top address and outside ROM.
-/
import Z80.Lemmas.Bus
import Z80.Lemmas.Word
namespace Z80
open Bus

/-- a byte written at a writable address is read back unchanged -/
theorem C08_read_after_write (b : Bus) (a : UInt16) (v : UInt8) (h : b.writable a) :
    (b.writeByte a v).readByte a = v := readByte_writeByte_same b a v h

/-- and disturbs no other address -/
theorem C08_noninterference (b : Bus) (a x : UInt16) (v : UInt8) (h : x ≠ a) :
    (b.writeByte a v).readByte x = b.readByte x := readByte_writeByte_other b a x v h

/-- reads above the top address return 0 -/
theorem C08_read_above_top (b : Bus) (a : UInt16) (h : b.mem.size ≤ a.toNat) : b.readByte a = 0 :=
  readByte_above_top b a h

/-- writes above the top address are ignored (the whole bus is unchanged) -/
theorem C08_write_above_top (b : Bus) (a : UInt16) (v : UInt8) (h : b.mem.size ≤ a.toNat) :
    b.writeByte a v = b := writeByte_above_top b a v h

/-- the constructor gives a bus whose top address is `size`, all zero, without ROM -/
theorem C08_new (size a : UInt16) : (Bus.new size).readByte a = 0 ∧ (Bus.new size).mem.size = size.toNat + 1 ∧
    (Bus.new size).rom = none := by
  refine ⟨?_, by simp [Bus.new], rfl⟩
  unfold Bus.new readByte
  rw [Array.getD_eq_getD_getElem?]
  by_cases h : a.toNat < size.toNat + 1 <;> simp [h]

/-- 16-bit read = the two byte reads at `a` and `a+1` (wrapping), low byte first -/
theorem C08_readWord_compose (b : Bus) (a : UInt16) :
    b.readWord a = ((b.readByte (a + 1)).toUInt16 <<< 8) ||| (b.readByte a).toUInt16 := rfl

theorem C08_readLeWord_compose (b : Bus) (a : UInt16) :
    b.readLeWord a = ((b.readByte a).toUInt16 <<< 8) ||| (b.readByte (a + 1)).toUInt16 := rfl

theorem C08_readLeDword_compose (b : Bus) (a : UInt16) :
    b.readLeDword a = ((b.readByte a).toUInt32 <<< 24) ||| ((b.readByte (a + 1)).toUInt32 <<< 16) |||
      ((b.readByte (a + 2)).toUInt32 <<< 8) ||| (b.readByte (a + 3)).toUInt32 := rfl

/-- 16-bit write = the two byte writes (each through the size and ROM guards) -/
theorem C08_writeWord_compose (b : Bus) (a w : UInt16) :
    b.writeWord a w = (b.writeByte a (loByte w)).writeByte (a + 1) (hiByte w) := by
  unfold writeWord; rw [shr8_eq_hiByte]

private theorem succ_ne (a : UInt16) : a ≠ a + 1 := by
  intro h
  have := congrArg UInt16.toNat h
  simp [UInt16.toNat_add] at this
  omega

/-- a word written where both bytes are writable is the word read back, and equals its two bytes -/
theorem C08_word_roundtrip (b : Bus) (a w : UInt16) (h0 : b.writable a) (h1 : b.writable (a + 1)) :
    (b.writeWord a w).readWord a = w ∧ (b.writeWord a w).readByte a = loByte w ∧
    (b.writeWord a w).readByte (a + 1) = hiByte w := by
  have e0 : (b.writeWord a w).readByte a = loByte w := by
    rw [C08_writeWord_compose, readByte_writeByte_other _ _ _ _ (succ_ne a), readByte_writeByte_same _ _ _ h0]
  have e1 : (b.writeWord a w).readByte (a + 1) = hiByte w := by
    rw [C08_writeWord_compose, readByte_writeByte_same]
    exact ⟨by simpa using h1.1, by simpa using h1.2⟩
  refine ⟨?_, e0, e1⟩
  unfold readWord; rw [e0, e1, mkWord_hi_lo]

/-- word writes disturb no address other than `a` and `a+1` -/
theorem C08_word_noninterference (b : Bus) (a x w : UInt16) (h0 : x ≠ a) (h1 : x ≠ a + 1) :
    (b.writeWord a w).readByte x = b.readByte x := readByte_writeWord_other b a x w h0 h1

/-- wrap at 0xFFFF: the second byte of a word at 0xFFFF is the byte at 0x0000 -/
theorem C08_wrap (b : Bus) : b.readWord 0xFFFF = mkWord (b.readByte 0) (b.readByte 0xFFFF) := by
  unfold readWord; rfl

/-! ### any sequence of stores -/

/-- one store on the bus: a byte or a word -/
inductive Store
  | byte (a : UInt16) (v : UInt8)
  | word (a : UInt16) (w : UInt16)

def Store.apply (b : Bus) : Store → Bus
  | .byte a v => b.writeByte a v
  | .word a w => b.writeWord a w

/-- the addresses a store may touch -/
def Store.hits (x : UInt16) : Store → Prop
  | .byte a _ => x = a
  | .word a _ => x = a ∨ x = a + 1

/-- a byte written (where writable) is read back unchanged after ANY further sequence of byte and word stores that
    do not address it, however long; the size and the ROM declaration never change -/
theorem C08_stores (b : Bus) (ss : List Store) (x : UInt16) (hx : ∀ s ∈ ss, ¬ s.hits x) :
    (ss.foldl Store.apply b).readByte x = b.readByte x ∧ (ss.foldl Store.apply b).mem.size = b.mem.size ∧
    (ss.foldl Store.apply b).rom = b.rom := by
  induction ss generalizing b with
  | nil => exact ⟨rfl, rfl, rfl⟩
  | cons s ss ih =>
    obtain ⟨i1, i2, i3⟩ := ih (s.apply b) (fun t ht => hx t (by simp [ht]))
    have hs := hx s (by simp)
    simp only [List.foldl_cons]
    cases s with
    | byte a v =>
      have hne : x ≠ a := fun e => hs e
      refine ⟨?_, ?_, ?_⟩
      · rw [i1]; exact readByte_writeByte_other b a x v hne
      · rw [i2]; simp [Store.apply]
      · rw [i3]; simp [Store.apply]
    | word a w =>
      have h0 : x ≠ a := fun e => hs (Or.inl e)
      have h1 : x ≠ a + 1 := fun e => hs (Or.inr e)
      refine ⟨?_, ?_, ?_⟩
      · rw [i1]; exact readByte_writeWord_other b a x w h0 h1
      · rw [i2]; simp [Store.apply, writeWord]
      · rw [i3]; simp [Store.apply, writeWord]

theorem C08_read_after_write_stores (b : Bus) (a : UInt16) (v : UInt8) (h : b.writable a) (ss : List Store)
    (hx : ∀ s ∈ ss, ¬ s.hits a) : (ss.foldl Store.apply (b.writeByte a v)).readByte a = v := by
  rw [(C08_stores _ ss a hx).1]; exact readByte_writeByte_same b a v h

/-- non-vacuity: a 4-byte bus, word written at the top address: high byte is dropped, low byte lands -/
example : ((Bus.new 3).writeWord 3 0xBEEF).readWord 3 = 0x00EF ∧ (Bus.new 3).writable 3 ∧ ¬ (Bus.new 3).writable 4 := by
  decide

end Z80
