/-
  C11 — An enabled maskable interrupt is accepted once, vectored by mode, linked right.
  All statements are about `stepArch` (= `CPU::execute` on the architectural state) for every
  state: any registers/memory, IFF2 either way, halted or not (`wake` moves PC past a HALT first),
  any I and table contents.  `a.int = some b` is "a request with byte b was raised since the last step".
-/
import Z80.Lemmas.Ctl
import Z80.Model.Run
namespace Z80

/-- the eight RST opcodes and their vectors -/
def rstVector (b : UInt8) : Option UInt16 :=
  match b with
  | 0xC7 => some 0x00 | 0xCF => some 0x08 | 0xD7 => some 0x10 | 0xDF => some 0x18
  | 0xE7 => some 0x20 | 0xEF => some 0x28 | 0xF7 => some 0x30 | 0xFF => some 0x38
  | _ => none

private theorem decode_rst (bus : Bus) (pc : UInt16) (b : UInt8) (v : UInt16) (h : rstVector b = some v) :
    decode bus pc b = ⟨.rst v, 1, .base, b⟩ := by
  unfold rstVector at h
  split at h <;> first | (cases h; rfl) | (cases h)

/-- the state in which acceptance takes place: a HALT has been left behind -/
abbrev resumed (a : Arch) : Arch := wake a

/-- (i) serviced iff enabled — the enabled half: with IFF1 set and no NMI the request is accepted:
    both enables are cleared and the latch is consumed by this step -/
theorem C11_enabled (a : Arch) (b : UInt8) (hi : a.iff1 = true) (hn : a.nmi = false) (hb : a.int = some b) :
    preDispatch a = acceptInt (resumed a) b ∧ (stepArch a).1 = (dispatch (preDispatch a)).1 ∧
    (preDispatch a).iff1 = false ∧ (preDispatch a).iff2 = false ∧ (stepArch a).1.int = none := by
  have hw : (wake a).iff1 = true ∧ (wake a).nmi = false ∧ (wake a).int = some b := by
    unfold wake; split <;> exact ⟨hi, hn, hb⟩
  have h1 : preDispatch a = acceptInt (wake a) b := by
    simp [preDispatch, takeNmi, takeInt, hw.1, hw.2.1, hw.2.2]
  have h2 : (stepArch a).1 = (dispatch (preDispatch a)).1 := by
    simp [stepArch, Arch.wakes, hi, hb]
  refine ⟨h1, h2, ?_, ?_, by rw [h2]; rfl⟩ <;>
  · rw [h1]; unfold acceptInt; split
    · rfl
    · split <;> rfl

/-- (i) the disabled half is C12: with IFF1 clear the request is not serviced -/
theorem C11_disabled (a : Arch) (b : UInt8) (hi : a.iff1 = false) (hb : a.int = some b) (hn : a.nmi = false) :
    preDispatch a = { wake a with int := none } := by
  have hw : (wake a).iff1 = false ∧ (wake a).nmi = false := by unfold wake; split <;> exact ⟨hi, hn⟩
  simp [preDispatch, takeNmi, takeInt, hw.1, hw.2]

/-- (ii) mode 0 with one of the eight RST opcodes: control passes to that vector, the pushed return
    address is the PC of the instruction that would otherwise have run next, SP := SP - 2 -/
theorem C11_mode0 (a : Arch) (b : UInt8) (v : UInt16) (hv : rstVector b = some v)
    (hi : a.iff1 = true) (hn : a.nmi = false) (hb : a.int = some b) (hm : a.im = 0) :
    (stepArch a).1 =
      { (({ resumed a with iff1 := false, iff2 := false } : Arch).pushWord (resumed a).reg.pc).setPC v with int := none } := by
  obtain ⟨h1, h2, _⟩ := C11_enabled a b hi hn hb
  have hm' : (wake a).im = 0 := by unfold wake; split <;> exact hm
  have hb' : (wake a).int = some b := by unfold wake; split <;> exact hb
  have h3 : preDispatch a = { wake a with iff1 := false, iff2 := false } := by
    rw [h1]; unfold acceptInt; simp [hm']
  rw [h2, h3]
  simp only [dispatch, firstByte, hb', decode_rst _ _ b v hv, effLen, exec]
  simp [Arch.pushWord, Arch.setPC]

/-- (ii) mode 1: vector 0x0038 regardless of the byte supplied -/
theorem C11_mode1 (a : Arch) (b : UInt8) (hi : a.iff1 = true) (hn : a.nmi = false) (hb : a.int = some b) (hm : a.im = 1) :
    (stepArch a).1 =
      { (({ resumed a with iff1 := false, iff2 := false } : Arch).pushWord (resumed a).reg.pc).setPC 0x0038 with int := none } := by
  obtain ⟨h1, h2, _⟩ := C11_enabled a b hi hn hb
  have hm' : (wake a).im = 1 := by unfold wake; split <;> exact hm
  have h3 : preDispatch a = { wake a with iff1 := false, iff2 := false, int := some 0xFF } := by
    rw [h1]; unfold acceptInt; simp [hm']
  rw [h2, h3]
  simp only [dispatch, firstByte, decode_rst _ _ 0xFF 0x38 rfl, effLen, exec]
  simp [Arch.pushWord, Arch.setPC]

/-- (ii) mode 2: PC is pushed, then loaded from the 16-bit table entry at I*256 + byte; the first
    handler instruction is executed by the same call (as the code does) -/
theorem C11_mode2 (a : Arch) (b : UInt8) (hi : a.iff1 = true) (hn : a.nmi = false) (hb : a.int = some b) (hm : a.im = 2) :
    let pushed := ({ resumed a with iff1 := false, iff2 := false } : Arch).pushWord (resumed a).reg.pc
    preDispatch a = { pushed.setPC (pushed.bus.readWord (mkWord a.reg.i b)) with int := none } ∧
    (stepArch a).1 = (dispatch (preDispatch a)).1 := by
  obtain ⟨h1, h2, _⟩ := C11_enabled a b hi hn hb
  have hm' : (wake a).im = 2 := by unfold wake; split <;> exact hm
  have hI : (wake a).reg.i = a.reg.i := by unfold wake; split <;> rfl
  refine ⟨?_, h2⟩
  rw [h1]; unfold acceptInt; simp [hm', hI]

/-! ### each request is serviced at most once, over every history -/

/-- does this step accept a maskable request? -/
def acceptsInt (a : Arch) : Bool := a.iff1 && !a.nmi && a.int.isSome

def latchedA (a : Arch) : Nat := if a.int.isSome then 1 else 0
def latched (c : Cpu) : Nat := latchedA c.arch
def acceptsN (a : Arch) : Nat := if acceptsInt a then 1 else 0

/-- number of steps of the history that accept a maskable request -/
def acceptCount (c : Cpu) : List Event → Nat
  | [] => 0
  | e :: es =>
    (match e with
     | .step | .timed _ => acceptsN c.arch
     | _ => 0) + acceptCount (runEvent c e) es

def requestCount : List Event → Nat
  | [] => 0
  | .int _ :: es => 1 + requestCount es
  | _ :: es => requestCount es

private theorem step_latch (a : Arch) : latchedA (stepArch a).1 + acceptsN a ≤ latchedA a := by
  unfold latchedA acceptsN
  by_cases hidle : (a.halt && !a.wakes) = true
  · have : stepArch a = (a, 4, none) := by simp [stepArch, hidle]
    rw [this]
    have : acceptsInt a = false := by
      simp only [Arch.wakes, Bool.and_eq_true, Bool.not_eq_true', Bool.or_eq_false_iff] at hidle
      unfold acceptsInt; cases h1 : a.iff1 <;> cases h2 : a.int.isSome <;> simp_all
    simp [this]
  · have h2 : (stepArch a).1 = (dispatch (preDispatch a)).1 := by simp [stepArch, hidle]
    have : (stepArch a).1.int = none := by rw [h2]; rfl
    simp only [this, Option.isSome_none, Bool.false_eq_true, ↓reduceIte, Nat.zero_add]
    cases hint : a.int with
    | none => simp [acceptsInt, hint]
    | some b => simp only [Option.isSome_some, ↓reduceIte]; split <;> omega

private theorem latchedA_le (a : Arch) : latchedA a ≤ 1 := by unfold latchedA; split <;> omega

/-- a request raised before the previous one was consumed replaces it: there is one latch, not a queue -/
theorem C11_latest_request (c : Cpu) (b1 b2 : UInt8) : (c.intRequest b1).intRequest b2 = c.intRequest b2 := rfl

/-- over any finite history of host calls (steps, timed steps, requests, NMIs, stores, loads, clears, clock
    settings, register assignments): the number of
    accepted maskable interrupts never exceeds the number of requests raised (plus one if a request
    was already latched at the start) -/
theorem C11_once (c : Cpu) (es : List Event) :
    acceptCount c es + latched (run c es) ≤ requestCount es + latched c := by
  induction es generalizing c with
  | nil => simp [acceptCount, requestCount, run]
  | cons e es ih =>
    have := ih (runEvent c e)
    simp only [run, List.foldl_cons] at this ⊢
    cases e with
    | step =>
      have hs := step_latch c.arch
      have e1 : latched (runEvent c .step) = latchedA (stepArch c.arch).1 := rfl
      simp only [acceptCount, requestCount] at *
      unfold latched at *
      rw [e1] at this
      omega
    | timed el =>
      have hs := step_latch c.arch
      have e1 : latched (runEvent c (.timed el)) = latchedA (stepArch c.arch).1 := rfl
      simp only [acceptCount, requestCount] at *
      unfold latched at *
      rw [e1] at this
      omega
    | int b =>
      have e1 : latched (runEvent c (.int b)) = 1 := rfl
      have := latchedA_le c.arch
      simp only [acceptCount, requestCount] at *
      unfold latched at *
      omega
    | nmi =>
      have e1 : latched (runEvent c .nmi) = latched c := rfl
      simp only [acceptCount, requestCount] at *
      omega
    | writeByte a v =>
      have e1 : latched (runEvent c (.writeByte a v)) = latched c := rfl
      simp only [acceptCount, requestCount] at *
      omega
    | writeWord a w =>
      have e1 : latched (runEvent c (.writeWord a w)) = latched c := rfl
      simp only [acceptCount, requestCount] at *
      omega
    | setRom s t =>
      have e1 : latched (runEvent c (.setRom s t)) = latched c := rfl
      simp only [acceptCount, requestCount] at *
      omega
    | load file org =>
      have e1 : latched (runEvent c (.load file org)) = latched c := by
        show latched (c.loadBin file org) = _
        unfold Cpu.loadBin; split <;> rfl
      simp only [acceptCount, requestCount] at *
      omega
    | clear s t =>
      have e1 : latched (runEvent c (.clear s t)) = latched c := by
        show latched (c.clearSlice s t) = _
        unfold Cpu.clearSlice; split <;> rfl
      simp only [acceptCount, requestCount] at *
      omega
    | observe =>
      have e1 : latched (runEvent c .observe) = latched c := rfl
      simp only [acceptCount, requestCount] at *
      omega
    | setFreq n =>
      have e1 : latched (runEvent c (.setFreq n)) = latched c := rfl
      simp only [acceptCount, requestCount] at *
      omega
    | setSliceDuration d =>
      have e1 : latched (runEvent c (.setSliceDuration d)) = latched c := rfl
      simp only [acceptCount, requestCount] at *
      omega
    | hostReg w v =>
      have e1 : latched (runEvent c (.hostReg w v)) = latched c := rfl
      simp only [acceptCount, requestCount] at *
      omega

/-- non-vacuity: mode 1, byte 0x00, PC = 0x1234 -> PC = 0x38, stack holds 34 12 -/
example :
    let a : Arch := { bus := { mem := #[0, 0, 0, 0] }, reg := { pc := 0x1234, sp := 4 }, iff1 := true, iff2 := true,
                      im := 1, int := some 0 }
    (stepArch a).1.reg.pc = 0x38 ∧ (stepArch a).1.bus.mem = #[0, 0, 0x34, 0x12] ∧ (stepArch a).1.iff1 = false := by
  decide +kernel

end Z80
