/-
  C15 — Disassembler instruction length equals the bytes the interpreter consumes.
  "Recognised" = the disassembler has a non-empty text for the opcode: every base opcode except
  the prefixes DD/ED/FD, and every CB-prefixed opcode.  For every operand byte, address, state.
-/
import Z80.Lemmas.TableRows
import Z80.Lemmas.Pc
import Z80.Lemmas.Plain
import Z80.Lemmas.Block
namespace Z80

/-- does `dasm` produce text for the opcode byte `op`? -/
def recognised (op : UInt8) : Bool := op == 0xCB || !(dasmBase.getD op.toNat []).isEmpty

/-- base page: the size column equals the encoded length the decoder reports, whatever the operands -/
theorem C15_size_base (op b1 b2 : UInt8) (h : recognised op = true) (hcb : op ≠ 0xCB) :
    (dasmSize op).toUInt16 = (decodeBase op b1 b2).2 := by
  have := row_dasm_size_base op b1 b2
  have hne : (dasmBase.getD op.toNat []).isEmpty = false := by
    simp only [recognised, Bool.or_eq_true, beq_iff_eq, Bool.not_eq_true'] at h
    rcases h with h | h
    · exact absurd h hcb
    · exact h
  rw [hne, Bool.false_or] at this
  exact beq_iff_eq.mp this

/-- CB page: size 2 = the length of every CB-prefixed instruction -/
theorem C15_size_cb (op : UInt8) : (dasmSize 0xCB).toUInt16 = (decodeCB op).2 := by
  rw [row_dasm_size_cb]; rfl

/-- for every state without a pending request: the size `dasm` reports at PC is the length
    `decode` hands to the interpreter -/
theorem C15_size_eq_decoded_length (a : Arch) (hint : a.int = none)
    (h : recognised (a.bus.readByte a.reg.pc) = true) :
    (dasm a a.reg.pc).2.toUInt16 = (decode a.bus a.reg.pc (firstByte a)).len := by
  simp only [firstByte, hint, dasm]
  by_cases hcb : a.bus.readByte a.reg.pc = 0xCB
  · simp only [decode, hcb, isPrefix, beq_self_eq_true, Bool.true_or, ↓reduceIte]
    exact C15_size_cb _
  · have hnp : isPrefix (a.bus.readByte a.reg.pc) = false := by
      generalize a.bus.readByte a.reg.pc = op at *
      have hne : (dasmBase.getD op.toNat []).isEmpty = false := by
        simp only [recognised, Bool.or_eq_true, beq_iff_eq, Bool.not_eq_true'] at h
        rcases h with h | h
        · exact absurd h hcb
        · exact h
      -- the three other prefixes have no template
      have key := forall_u8 (p := fun o => !(isPrefix o && !(o == 0xCB) && !(dasmBase.getD o.toNat []).isEmpty)) (by decide +kernel) op
      have hcb' : (op == 0xCB) = false := by simpa using hcb
      rw [hne, hcb'] at key
      cases hp : isPrefix op
      · rfl
      · rw [hp] at key; cases key
    simp only [decode, hnp, Bool.false_eq_true, ↓reduceIte]
    exact C15_size_base _ _ _ h hcb

/-- hence a step of a recognised, non-transfer instruction advances PC by exactly the reported size:
    walking memory with the reported sizes visits the instruction boundaries the interpreter uses -/
theorem C15_step_advance (a : Arch) (hint : a.int = none)
    (h : recognised (a.bus.readByte a.reg.pc) = true)
    (ht : transfers (decode a.bus a.reg.pc (firstByte a)).instr = false) :
    (dispatch a).1.reg.pc = a.reg.pc + (dasm a a.reg.pc).2.toUInt16 := by
  rw [C15_size_eq_decoded_length a hint h]
  show (exec _ _ a).reg.pc = _
  rw [exec_pc_seq _ _ _ ht]
  congr 1
  simp only [effLen, hint]
  split
  · rename_i hh; simp at hh
  · rfl

/-- walking: n steps of straight-line code visit the addresses obtained by adding the reported sizes -/
def walk (a : Arch) : Nat → UInt16 → UInt16
  | 0, addr => addr
  | n + 1, addr => walk a n (addr + (dasm a addr).2.toUInt16)

theorem walk_succ' (a : Arch) (n : Nat) (addr : UInt16) :
    walk a (n + 1) addr = walk a n addr + (dasm a (walk a n addr)).2.toUInt16 := by
  induction n generalizing addr with
  | zero => rfl
  | succ n ih => show walk a (n + 1) _ = _; rw [ih]; rfl

/-- the walk theorem: run `n` steps of straight-line code (no request pending, every instruction
    recognised and not a transfer, and the listing of the bytes about to be executed has not been changed
    by the stores so far); the PC after them is where the listing made from the initial state puts the
    n-th instruction boundary -/
theorem C15_walk (a : Arch) (n : Nat)
    (h : ∀ k, k < n →
      let s := iter (fun s => (stepArch s).1) k a
      s.quiet ∧ recognised (s.bus.readByte s.reg.pc) = true ∧
      transfers (decode s.bus s.reg.pc (firstByte s)).instr = false ∧
      (dasm s s.reg.pc).2 = (dasm a s.reg.pc).2) :
    (iter (fun s => (stepArch s).1) n a).reg.pc = walk a n a.reg.pc := by
  induction n with
  | zero => rfl
  | succ n ih =>
    have ih' := ih (fun k hk => h k (by omega))
    obtain ⟨hq, hr, ht, hs⟩ := h n (by omega)
    rw [iter_succ', walk_succ', ← ih']
    generalize iter (fun s => (stepArch s).1) n a = s at *
    have e : (stepArch s).1 = (dispatch s).1 := by rw [stepArch_quiet s hq]
    rw [e, C15_step_advance s hq.2.2 hr ht, hs]

/-- non-vacuity: LD BC,nn is recognised, three bytes, PC advances by three -/
example :
    let a : Arch := { bus := { mem := #[0x01, 0x34, 0x12, 0x00] } }
    recognised 0x01 = true ∧ (dasm a 0).2 = 3 ∧ (dispatch a).1.reg.pc = 3 ∧ (dasm a 0).1 = "01 34 12 LD BC,$1234" := by
  decide +kernel

/-- the size is a function of the byte stored at the address and of nothing else: not of a pending request, not of
    PC, not of what was executed or listed before -/
theorem C15_size_of_byte (a : Arch) (address : UInt16) : (dasm a address).2 = dasmSize (a.bus.readByte address) := rfl

/-- non-vacuity of the walk: LD BC,$1234 ; INC B ; NOP from address 0 -/
example :
    let a : Arch := { bus := { mem := #[0x01, 0x34, 0x12, 0x04, 0x00, 0x00] } }
    walk a 3 0 = 5 ∧ (iter (fun s => (stepArch s).1) 3 a).reg.pc = 5 ∧ a.quiet := by
  refine ⟨by decide +kernel, by decide +kernel, rfl, rfl, rfl⟩

end Z80
