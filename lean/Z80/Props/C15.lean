/-
  C15 — Disassembler instruction length equals the bytes the interpreter consumes.
  "Recognised" = the disassembler has a non-empty text for the opcode: every base opcode except
  the prefixes DD/ED/FD, and every CB-prefixed opcode.  For every operand byte, address, state.
-/
import Z80.Lemmas.TableRows
import Z80.Lemmas.Pc
namespace Z80

/-- does `dasm` produce text for the opcode byte `op`? -/
def recognised (op : UInt8) : Bool := op == 0xCB || !(dasmBase.getD op.toNat []).isEmpty

/-- base page: the size column equals the encoded length the decoder reports, whatever the operands -/
theorem C15_size_base (op b1 b2 : UInt8) (h : recognised op = true) (hcb : op ≠ 0xCB) :
    (dasmSize op).toUInt16 = (decodeBase op b1 b2).2 := by
  have := row_dasm_size_base op b1 b2
  have hne : (dasmBase.getD op.toNat []).isEmpty = false := by
    simp only [recognised, Bool.or_eq_true, beq_iff_eq, Bool.not_eq_true'] at h
    rcases h with h | h
    · exact absurd h hcb
    · exact h
  rw [hne, Bool.false_or] at this
  exact beq_iff_eq.mp this

/-- CB page: size 2 = the length of every CB-prefixed instruction -/
theorem C15_size_cb (op : UInt8) : (dasmSize 0xCB).toUInt16 = (decodeCB op).2 := by
  rw [row_dasm_size_cb]; rfl

/-- for every state without a pending request: the size `dasm` reports at PC is the length
    `decode` hands to the interpreter -/
theorem C15_size_eq_decoded_length (a : Arch) (hint : a.int = none)
    (h : recognised (a.bus.readByte a.reg.pc) = true) :
    (dasm a a.reg.pc).2.toUInt16 = (decode a.bus a.reg.pc (firstByte a)).len := by
  simp only [firstByte, hint, dasm]
  by_cases hcb : a.bus.readByte a.reg.pc = 0xCB
  · simp only [decode, hcb, isPrefix, beq_self_eq_true, Bool.true_or, ↓reduceIte]
    exact C15_size_cb _
  · have hnp : isPrefix (a.bus.readByte a.reg.pc) = false := by
      generalize a.bus.readByte a.reg.pc = op at *
      have hne : (dasmBase.getD op.toNat []).isEmpty = false := by
        simp only [recognised, Bool.or_eq_true, beq_iff_eq, Bool.not_eq_true'] at h
        rcases h with h | h
        · exact absurd h hcb
        · exact h
      -- the three other prefixes have no template
      have key := forall_u8 (p := fun o => !(isPrefix o && !(o == 0xCB) && !(dasmBase.getD o.toNat []).isEmpty)) (by decide +kernel) op
      have hcb' : (op == 0xCB) = false := by simpa using hcb
      rw [hne, hcb'] at key
      cases hp : isPrefix op
      · rfl
      · rw [hp] at key; cases key
    simp only [decode, hnp, Bool.false_eq_true, ↓reduceIte]
    exact C15_size_base _ _ _ h hcb

/-- hence a step of a recognised, non-transfer instruction advances PC by exactly the reported size:
    walking memory with the reported sizes visits the instruction boundaries the interpreter uses -/
theorem C15_step_advance (a : Arch) (hint : a.int = none)
    (h : recognised (a.bus.readByte a.reg.pc) = true)
    (ht : transfers (decode a.bus a.reg.pc (firstByte a)).instr = false) :
    (dispatch a).1.reg.pc = a.reg.pc + (dasm a a.reg.pc).2.toUInt16 := by
  rw [C15_size_eq_decoded_length a hint h]
  show (exec _ _ a).reg.pc = _
  rw [exec_pc_seq _ _ _ ht]
  congr 1
  simp only [effLen, hint]
  split
  · rename_i hh; simp at hh
  · rfl

/-- walking: n steps of straight-line code visit the addresses obtained by adding the reported sizes -/
def walk (a : Arch) : Nat → UInt16 → UInt16
  | 0, addr => addr
  | n + 1, addr => walk a n (addr + (dasm a addr).2.toUInt16)

/-- non-vacuity: LD BC,nn is recognised, three bytes, PC advances by three -/
example :
    let a : Arch := { bus := { mem := #[0x01, 0x34, 0x12, 0x00] } }
    recognised 0x01 = true ∧ (dasm a 0).2 = 3 ∧ (dispatch a).1.reg.pc = 3 ∧ (dasm a 0).1 = "01 34 12 LD BC,$1234" := by
  decide +kernel

end Z80
