/-
  C19 — A repeating block instruction equals iterating its single-step form.
  For every state: every BC (0 = 65,536 iterations), every HL/DE placement (disjoint, overlapping
  either way, wrapping through 0xFFFF), any memory size and ROM window, any A and memory contents.
  `ldStep up` / `cpStep up` are the effects of LDI/LDD / CPI/CPD on everything but PC.
-/
import Z80.Lemmas.Block
namespace Z80

/-- LDI/LDD/CPI/CPD as instructions are the single step plus the PC advance -/
theorem C19_singles (len : UInt16) (a : Arch) :
    exec .ldi len a = (ldStep true a).setPC (a.reg.pc + len) ∧ exec .ldd len a = (ldStep false a).setPC (a.reg.pc + len) ∧
    exec .cpi len a = (cpStep true a).setPC (a.reg.pc + len) ∧ exec .cpd len a = (cpStep false a).setPC (a.reg.pc + len) :=
  ⟨rfl, rfl, rfl, rfl⟩

/-- LDIR = LDI iterated BC times (65,536 times when BC = 0); registers, flags and memory -/
theorem C19_ldir (len : UInt16) (a : Arch) :
    exec .ldir len a = (iter (ldStep true) (blockCount a.reg.getBC) a).setPC (a.reg.pc + len) := by
  simp only [exec]; rw [ldRepeat_eq_iter]

theorem C19_lddr (len : UInt16) (a : Arch) :
    exec .lddr len a = (iter (ldStep false) (blockCount a.reg.getBC) a).setPC (a.reg.pc + len) := by
  simp only [exec]; rw [ldRepeat_eq_iter]

/-- ... and that count is exactly "until BC reaches 0": BC is 0 after it and not before -/
theorem C19_ld_count (up : Bool) (a : Arch) :
    (iter (ldStep up) (blockCount a.reg.getBC) a).reg.getBC = 0 ∧
    ∀ j, 0 < j → j < blockCount a.reg.getBC → (iter (ldStep up) j a).reg.getBC ≠ 0 := by
  constructor
  · rw [iter_ldStep_bc]
    unfold blockCount; split
    · rename_i h; rw [h]; rfl
    · simp
  · intro j h0 h1 hz
    rw [iter_ldStep_bc] at hz
    have := congrArg UInt16.toNat hz
    have hlt := a.reg.getBC.toNat_lt
    rw [UInt16.toNat_sub, UInt16.toNat_ofNat'] at this
    unfold blockCount at h1
    split at h1
    · rename_i h; rw [h] at this; simp at this; omega
    · simp at this; omega

/-- CPIR = CPI iterated until a match is found or BC reaches 0: the loop's result is the state after
    the first (least, positive) number of CPI steps at which one of the two holds -/
theorem C19_cpir (len : UInt16) (a : Arch) :
    ∃ k, 0 < k ∧ k ≤ blockCount a.reg.getBC ∧
      exec .cpir len a = (iter (cpStep true) k a).setPC (a.reg.pc + len) ∧
      cpStops (iter (cpStep true) k a) = true ∧ ∀ j, 0 < j → j < k → cpStops (iter (cpStep true) j a) = false := by
  obtain ⟨k, h0, h1, h2, h3, h4⟩ := cpLoop_spec true 65536 a (blockCount_le _)
  exact ⟨k, h0, h1, by simp only [exec, cpRepeat]; rw [h2], h3, h4⟩

theorem C19_cpdr (len : UInt16) (a : Arch) :
    ∃ k, 0 < k ∧ k ≤ blockCount a.reg.getBC ∧
      exec .cpdr len a = (iter (cpStep false) k a).setPC (a.reg.pc + len) ∧
      cpStops (iter (cpStep false) k a) = true ∧ ∀ j, 0 < j → j < k → cpStops (iter (cpStep false) j a) = false := by
  obtain ⟨k, h0, h1, h2, h3, h4⟩ := cpLoop_spec false 65536 a (blockCount_le _)
  exact ⟨k, h0, h1, by simp only [exec, cpRepeat]; rw [h2], h3, h4⟩

/-! ### The hardware's view: one single step per fetch, PC held on the instruction until the loop ends

On the part, LDIR/LDDR/CPIR/CPDR execute ONE LDI/LDD/CPI/CPD per fetch and, while the loop has to go on, leave PC on
the instruction so that it is fetched again; only the last iteration moves PC past it.  The interpreter collapses
the loop into one `execute`.  The two views give the same machine state. -/

/-- one fetch of LDIR/LDDR on the part -/
def ldRefetch (up : Bool) (len : UInt16) (a : Arch) : Arch :=
  let a' := ldStep up a
  if a'.reg.getBC = 0 then a'.setPC (a.reg.pc + len) else a'

/-- one fetch of CPIR/CPDR on the part -/
def cpRefetch (up : Bool) (len : UInt16) (a : Arch) : Arch :=
  let a' := cpStep up a
  if cpStops a' then a'.setPC (a.reg.pc + len) else a'

theorem ldStep_pc (up : Bool) (a : Arch) : (ldStep up a).reg.pc = a.reg.pc := rfl
theorem cpStep_pc (up : Bool) (a : Arch) : (cpStep up a).reg.pc = a.reg.pc := rfl

theorem iter_ldStep_pc (up : Bool) (n : Nat) (a : Arch) : (iter (ldStep up) n a).reg.pc = a.reg.pc := by
  induction n generalizing a with
  | zero => rfl
  | succ n ih => simp only [iter]; rw [ih, ldStep_pc]

theorem iter_cpStep_pc (up : Bool) (n : Nat) (a : Arch) : (iter (cpStep up) n a).reg.pc = a.reg.pc := by
  induction n generalizing a with
  | zero => rfl
  | succ n ih => simp only [iter]; rw [ih, cpStep_pc]

theorem ld_refetch_aux (up : Bool) (len : UInt16) (n : Nat) (a : Arch) (hn : blockCount a.reg.getBC = n) :
    iter (ldRefetch up len) n a = (iter (ldStep up) n a).setPC (a.reg.pc + len) ∧
    ∀ j, j < n → iter (ldRefetch up len) j a = iter (ldStep up) j a := by
  induction n generalizing a with
  | zero => have := blockCount_pos a.reg.getBC; omega
  | succ n ih =>
    by_cases hz : (ldStep up a).reg.getBC = 0
    · have h1 : blockCount a.reg.getBC = 1 := blockCount_one _ (by rw [← ldStep_bc up a]; exact hz)
      have : n = 0 := by omega
      subst this
      refine ⟨by simp only [iter, ldRefetch, hz, ↓reduceIte], fun j hj => ?_⟩
      have : j = 0 := by omega
      subst this; rfl
    · have hr : ldRefetch up len a = ldStep up a := by simp only [ldRefetch, hz, ↓reduceIte]
      have hb := ldStep_bc up a
      have hz' := hz; rw [hb] at hz'
      have hc := blockCount_pred _ hz'
      have ⟨i1, i2⟩ := ih (ldStep up a) (by rw [hb]; omega)
      refine ⟨by simp only [iter]; rw [hr, i1, ldStep_pc], fun j hj => ?_⟩
      cases j with
      | zero => rfl
      | succ j => simp only [iter]; rw [hr]; exact i2 j (by omega)

theorem cp_refetch_aux (up : Bool) (len : UInt16) (k : Nat) (a : Arch) (hk : 0 < k)
    (hs : cpStops (iter (cpStep up) k a) = true)
    (hn : ∀ j, 0 < j → j < k → cpStops (iter (cpStep up) j a) = false) :
    iter (cpRefetch up len) k a = (iter (cpStep up) k a).setPC (a.reg.pc + len) ∧
    ∀ j, j < k → iter (cpRefetch up len) j a = iter (cpStep up) j a := by
  induction k generalizing a with
  | zero => omega
  | succ k ih =>
    by_cases h0 : k = 0
    · subst h0
      have : cpStops (cpStep up a) = true := hs
      refine ⟨by simp only [iter, cpRefetch, this, ↓reduceIte], fun j hj => ?_⟩
      have : j = 0 := by omega
      subst this; rfl
    · have h1 : cpStops (cpStep up a) = false := hn 1 (by omega) (by omega)
      have hr : cpRefetch up len a = cpStep up a := by simp [cpRefetch, h1]
      have ⟨i1, i2⟩ := ih (cpStep up a) (by omega) hs (fun j hj hjk => hn (j + 1) (by omega) (by omega))
      refine ⟨by simp only [iter]; rw [hr, i1, cpStep_pc], fun j hj => ?_⟩
      cases j with
      | zero => rfl
      | succ j => simp only [iter]; rw [hr]; exact i2 j (by omega)

/-- LDIR/LDDR collapsed into one `execute` = the part's `blockCount BC` fetches of the instruction; before the last
    of them PC is still on the instruction (an interrupt taken there would resume the loop), after it PC is past it -/
theorem C19_ld_refetch (up : Bool) (len : UInt16) (a : Arch) :
    iter (ldRefetch up len) (blockCount a.reg.getBC) a = exec (if up then .ldir else .lddr) len a ∧
    ∀ j, j < blockCount a.reg.getBC →
      (iter (ldRefetch up len) j a).reg.pc = a.reg.pc ∧ iter (ldRefetch up len) j a = iter (ldStep up) j a := by
  have ⟨h1, h2⟩ := ld_refetch_aux up len _ a rfl
  refine ⟨?_, fun j hj => ⟨by rw [h2 j hj, iter_ldStep_pc], h2 j hj⟩⟩
  rw [h1]; cases up <;> simp only [exec, Bool.false_eq_true, ↓reduceIte] <;> rw [ldRepeat_eq_iter]

/-- CPIR/CPDR likewise: the collapsed loop is `k` fetches, `k` the first step at which a match is found or BC is 0 -/
theorem C19_cp_refetch (up : Bool) (len : UInt16) (a : Arch) :
    ∃ k, 0 < k ∧ k ≤ blockCount a.reg.getBC ∧
      iter (cpRefetch up len) k a = exec (if up then .cpir else .cpdr) len a ∧
      ∀ j, j < k → (iter (cpRefetch up len) j a).reg.pc = a.reg.pc ∧ iter (cpRefetch up len) j a = iter (cpStep up) j a := by
  obtain ⟨k, h0, h1, h2, h3, h4⟩ := cpLoop_spec up 65536 a (blockCount_le _)
  have ⟨i1, i2⟩ := cp_refetch_aux up len k a h0 h3 h4
  refine ⟨k, h0, h1, ?_, fun j hj => ⟨by rw [i2 j hj, iter_cpStep_pc], i2 j hj⟩⟩
  rw [i1]; cases up <;> simp only [exec, cpRepeat, Bool.false_eq_true, ↓reduceIte] <;> rw [h2]

/-- non-vacuity: three fetches of LDIR at PC = 0x10 -/
example :
    let a : Arch := { bus := { mem := #[1, 2, 3, 4, 5, 6, 7, 8] }, reg := { pc := 0x10, b := 0, c := 3, h := 0, l := 0, d := 0, e := 1 } }
    (iter (ldRefetch true 2) 2 a).reg.pc = 0x10 ∧ (iter (ldRefetch true 2) 3 a).reg.pc = 0x12 ∧
    (iter (ldRefetch true 2) 3 a).bus.mem = #[1, 1, 1, 1, 5, 6, 7, 8] := by decide

/-- non-vacuity: an overlapping forward copy of 3 bytes -/
example :
    let a : Arch := { bus := { mem := #[1, 2, 3, 4, 5, 6, 7, 8] }, reg := { b := 0, c := 3, h := 0, l := 0, d := 0, e := 1 } }
    (exec .ldir 2 a).bus.mem = #[1, 1, 1, 1, 5, 6, 7, 8] ∧ blockCount a.reg.getBC = 3 := by decide

end Z80
