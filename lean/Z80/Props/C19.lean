/-
  C19 — A repeating block instruction equals iterating its single-step form.
  For every state: every BC (0 = 65,536 iterations), every HL/DE placement (disjoint, overlapping
  either way, wrapping through 0xFFFF), any memory size and ROM window, any A and memory contents.
  `ldStep up` / `cpStep up` are the effects of LDI/LDD / CPI/CPD on everything but PC.
-/
import Z80.Lemmas.Block
namespace Z80

/-- LDI/LDD/CPI/CPD as instructions are the single step plus the PC advance -/
theorem C19_singles (len : UInt16) (a : Arch) :
    exec .ldi len a = (ldStep true a).setPC (a.reg.pc + len) ∧ exec .ldd len a = (ldStep false a).setPC (a.reg.pc + len) ∧
    exec .cpi len a = (cpStep true a).setPC (a.reg.pc + len) ∧ exec .cpd len a = (cpStep false a).setPC (a.reg.pc + len) :=
  ⟨rfl, rfl, rfl, rfl⟩

/-- LDIR = LDI iterated BC times (65,536 times when BC = 0); registers, flags and memory -/
theorem C19_ldir (len : UInt16) (a : Arch) :
    exec .ldir len a = (iter (ldStep true) (blockCount a.reg.getBC) a).setPC (a.reg.pc + len) := by
  simp only [exec]; rw [ldRepeat_eq_iter]

theorem C19_lddr (len : UInt16) (a : Arch) :
    exec .lddr len a = (iter (ldStep false) (blockCount a.reg.getBC) a).setPC (a.reg.pc + len) := by
  simp only [exec]; rw [ldRepeat_eq_iter]

/-- ... and that count is exactly "until BC reaches 0": BC is 0 after it and not before -/
theorem C19_ld_count (up : Bool) (a : Arch) :
    (iter (ldStep up) (blockCount a.reg.getBC) a).reg.getBC = 0 ∧
    ∀ j, 0 < j → j < blockCount a.reg.getBC → (iter (ldStep up) j a).reg.getBC ≠ 0 := by
  constructor
  · rw [iter_ldStep_bc]
    unfold blockCount; split
    · rename_i h; rw [h]; rfl
    · simp
  · intro j h0 h1 hz
    rw [iter_ldStep_bc] at hz
    have := congrArg UInt16.toNat hz
    have hlt := a.reg.getBC.toNat_lt
    rw [UInt16.toNat_sub, UInt16.toNat_ofNat'] at this
    unfold blockCount at h1
    split at h1
    · rename_i h; rw [h] at this; simp at this; omega
    · simp at this; omega

/-- CPIR = CPI iterated until a match is found or BC reaches 0: the loop's result is the state after
    the first (least, positive) number of CPI steps at which one of the two holds -/
theorem C19_cpir (len : UInt16) (a : Arch) :
    ∃ k, 0 < k ∧ k ≤ blockCount a.reg.getBC ∧
      exec .cpir len a = (iter (cpStep true) k a).setPC (a.reg.pc + len) ∧
      cpStops (iter (cpStep true) k a) = true ∧ ∀ j, 0 < j → j < k → cpStops (iter (cpStep true) j a) = false := by
  obtain ⟨k, h0, h1, h2, h3, h4⟩ := cpLoop_spec true 65536 a (blockCount_le _)
  exact ⟨k, h0, h1, by simp only [exec, cpRepeat]; rw [h2], h3, h4⟩

theorem C19_cpdr (len : UInt16) (a : Arch) :
    ∃ k, 0 < k ∧ k ≤ blockCount a.reg.getBC ∧
      exec .cpdr len a = (iter (cpStep false) k a).setPC (a.reg.pc + len) ∧
      cpStops (iter (cpStep false) k a) = true ∧ ∀ j, 0 < j → j < k → cpStops (iter (cpStep false) j a) = false := by
  obtain ⟨k, h0, h1, h2, h3, h4⟩ := cpLoop_spec false 65536 a (blockCount_le _)
  exact ⟨k, h0, h1, by simp only [exec, cpRepeat]; rw [h2], h3, h4⟩

/-- non-vacuity: an overlapping forward copy of 3 bytes -/
example :
    let a : Arch := { bus := { mem := #[1, 2, 3, 4, 5, 6, 7, 8] }, reg := { b := 0, c := 3, h := 0, l := 0, d := 0, e := 1 } }
    (exec .ldir 2 a).bus.mem = #[1, 1, 1, 1, 5, 6, 7, 8] ∧ blockCount a.reg.getBC = 3 := by decide

end Z80
