/-
  Z80.Spec.Arith — results and flags of the arithmetic/logic instructions as the Zilog manual
  defines them, in ordinary (unbounded) integer arithmetic and bit tests on naturals:
    result = (a ± n ± c) mod 256;  S = bit 7 of the result;  Z = result is 0;
    H = carry out of / borrow into bit 3 (bit 11 for 16-bit);  C = carry out of / borrow into bit 7 (15);
    P/V = two's-complement overflow (the operands have like signs and the result's sign differs,
          resp. unlike signs for subtraction) or parity-even of the result;  N = subtract flag.
  Independent of the code's formulas.  Import-free.
-/
namespace Z80.Spec

structure Out where
  r : Nat
  s : Bool
  z : Bool
  h : Bool
  pv : Bool
  n : Bool
  c : Bool
deriving DecidableEq, Repr

def bit (x : Nat) (k : Nat) : Bool := x.testBit k

/-- even number of one bits among the low eight -/
def parity8 (r : Nat) : Bool :=
  ((if bit r 0 then 1 else 0) + (if bit r 1 then 1 else 0) + (if bit r 2 then 1 else 0) + (if bit r 3 then 1 else 0) +
   (if bit r 4 then 1 else 0) + (if bit r 5 then 1 else 0) + (if bit r 6 then 1 else 0) + (if bit r 7 then 1 else 0)) % 2 == 0

/-- a + n + c on `w`-bit operands (w = 8 or 16); half carry out of bit w-5 -/
def addW (w : Nat) (a n c : Nat) : Out :=
  let m := 2 ^ w
  let r := (a + n + c) % m
  { r := r, s := bit r (w - 1), z := r == 0,
    h := decide (a % 2 ^ (w - 4) + n % 2 ^ (w - 4) + c ≥ 2 ^ (w - 4)),
    pv := bit a (w - 1) == bit n (w - 1) && bit r (w - 1) != bit a (w - 1),
    n := false, c := decide (a + n + c ≥ m) }

/-- a - n - c on `w`-bit operands; borrows -/
def subW (w : Nat) (a n c : Nat) : Out :=
  let m := 2 ^ w
  let r := (a + m + m - n - c) % m
  { r := r, s := bit r (w - 1), z := r == 0,
    h := decide (a % 2 ^ (w - 4) < n % 2 ^ (w - 4) + c),
    pv := bit a (w - 1) != bit n (w - 1) && bit r (w - 1) != bit a (w - 1),
    n := true, c := decide (a < n + c) }

/-- logical operations: S Z from the result, P/V = parity, N = 0, C = 0, H as given -/
def logic (r : Nat) (h : Bool) : Out :=
  { r := r, s := bit r 7, z := r == 0, h := h, pv := parity8 r, n := false, c := false }

/-- rotate/shift result flags: S Z P from the result, H = N = 0, C as given -/
def shifted (r : Nat) (c : Bool) : Out :=
  { r := r, s := bit r 7, z := r == 0, h := false, pv := parity8 r, n := false, c := c }

def b2n (b : Bool) : Nat := if b then 1 else 0

/-- DAA as the manual's table (UM0080, "DAA" instruction): number added to A and the new carry as a
    function of N, C, the high digit, H and the low digit.  `none`: the row is not in the table
    (A does not hold the result of a BCD operation). -/
def daaTable (n c : Bool) (hi : Nat) (h : Bool) (lo : Nat) : Option (Nat × Bool) :=
  if !n then
    if !c && hi ≤ 9 && !h && lo ≤ 9 then some (0x00, false)
    else if !c && hi ≤ 8 && !h && 10 ≤ lo then some (0x06, false)
    else if !c && hi ≤ 9 && h && lo ≤ 3 then some (0x06, false)
    else if !c && 10 ≤ hi && !h && lo ≤ 9 then some (0x60, true)
    else if !c && 9 ≤ hi && !h && 10 ≤ lo then some (0x66, true)
    else if !c && 10 ≤ hi && h && lo ≤ 3 then some (0x66, true)
    else if c && hi ≤ 2 && !h && lo ≤ 9 then some (0x60, true)
    else if c && hi ≤ 2 && !h && 10 ≤ lo then some (0x66, true)
    else if c && hi ≤ 3 && h && lo ≤ 3 then some (0x66, true)
    else none
  else
    if !c && hi ≤ 9 && !h && lo ≤ 9 then some (0x00, false)
    else if !c && hi ≤ 8 && h && 6 ≤ lo then some (0xFA, false)
    else if c && 7 ≤ hi && !h && lo ≤ 9 then some (0xA0, true)
    else if c && 6 ≤ hi && h && 6 ≤ lo then some (0x9A, true)
    else none

/-- the eight rotates/shifts on a byte `n` with carry-in `cin`: (result, carry-out) -/
def rlc (n : Nat) : Nat × Bool := ((2 * n) % 256 + n / 128, decide (n / 128 = 1))
def rrc (n : Nat) : Nat × Bool := (n / 2 + 128 * (n % 2), decide (n % 2 = 1))
def rl (n cin : Nat) : Nat × Bool := ((2 * n) % 256 + cin, decide (n / 128 = 1))
def rr (n cin : Nat) : Nat × Bool := (n / 2 + 128 * cin, decide (n % 2 = 1))
def sla (n : Nat) : Nat × Bool := ((2 * n) % 256, decide (n / 128 = 1))
def sll (n : Nat) : Nat × Bool := ((2 * n) % 256 + 1, decide (n / 128 = 1))
def sra (n : Nat) : Nat × Bool := (n / 2 + 128 * (n / 128), decide (n % 2 = 1))
def srl (n : Nat) : Nat × Bool := (n / 2, decide (n % 2 = 1))

/-- RLD / RRD as nibble moves: (new A, new (HL)) -/
def rld (a m : Nat) : Nat × Nat := (a / 16 * 16 + m / 16, (m % 16) * 16 + a % 16)
def rrd (a m : Nat) : Nat × Nat := (a / 16 * 16 + m % 16, (a % 16) * 16 + m / 16)

end Z80.Spec
