/-
  Z80.Spec.Mnemonic — the text the disassembler should show for a decoded instruction, in the
  repository's own notation (register names, `$` + hex for immediates and addresses, the current
  value of the register pair for indirect operands), generated from the `Instr` the interpreter
  executes.  Holes are symbolic (`Piece`), so one check per opcode covers every operand value.
  Import-free.
-/
import Z80.Model.DasmTable
namespace Z80.Spec

def r8Name : R8 → String
  | .b => "B" | .c => "C" | .d => "D" | .e => "E" | .h => "H" | .l => "L" | .a => "A"
  | .ixh => "IXH" | .ixl => "IXL" | .iyh => "IYH" | .iyl => "IYL"

def r16Name : R16 → String
  | .bc => "BC" | .de => "DE" | .hl => "HL" | .sp => "SP" | .ix => "IX" | .iy => "IY" | .af => "AF"

def ccName : Cc → String
  | .nz => "NZ" | .z => "Z" | .nc => "NC" | .c => "C" | .po => "PO" | .pe => "PE" | .p => "P" | .m => "M"

def aluName : AluOp → String
  | .add => "ADD A," | .adc => "ADC A," | .sub => "SUB A," | .sbc => "SBC A,"
  | .and => "AND " | .xor => "XOR " | .or => "OR " | .cp => "CP "

def rotName : RotOp → String
  | .rlc => "RLC" | .rrc => "RRC" | .rl => "RL" | .rr => "RR" | .sla => "SLA" | .sra => "SRA" | .sll => "SLL" | .srl => "SRL"

/-- an 8-bit location as an operand: register name, or `($hhll)` with the value of the pair / the address -/
def loc : Loc8 → Option (List Piece)
  | .reg r => some [.lit (r8Name r)]
  | .mem .hl => some [.lit "($", .pair .hl, .lit ")"]
  | .mem .bc => some [.lit "($", .pair .bc, .lit ")"]
  | .mem .de => some [.lit "($", .pair .de, .lit ")"]
  | .mem (.abs _) => some [.lit "($", .w1, .lit ")"]
  | .mem (.idx _ _) => none

def digit (n : UInt16) : String := String.singleton (Char.ofNat (48 + n.toNat))

/-- mnemonic and operands of the base-page instructions (the disassembler covers base and CB only) -/
def mnemonic (i : Instr) : Option (List Piece) :=
  match i with
  | .nop => some [.lit "NOP"] | .halt => some [.lit "HALT"] | .di => some [.lit "DI"] | .ei => some [.lit "EI"]
  | .ld8 dst (.loc src) => do some ([.lit "LD "] ++ (← loc dst) ++ [.lit ","] ++ (← loc src))
  | .ld8 (.reg r) (.imm _) => some [.lit ("LD " ++ r8Name r ++ ",$"), .b1]
  | .ld8 (.mem .hl) (.imm _) => some [.lit "LD ($", .pair .hl, .lit "),", .b1]
  | .ld16 r _ => some [.lit ("LD " ++ r16Name r ++ ",$"), .w1]
  | .ld16m r _ => some [.lit ("LD " ++ r16Name r ++ ",($"), .w1, .lit ")"]
  | .st16m _ r => some [.lit "LD ($", .w1, .lit ("),"  ++ r16Name r)]
  | .ldSP r => some [.lit ("LD SP," ++ r16Name r)]
  | .push r => some [.lit ("PUSH " ++ r16Name r)]
  | .pop r => some [.lit ("POP " ++ r16Name r)]
  | .exDEHL => some [.lit "EX DE,HL"] | .exAF => some [.lit "EX AF,AF'"] | .exx => some [.lit "EXX"]
  | .exSP r => some [.lit ("EX (SP)," ++ r16Name r)]
  | .alu op (.loc l) => do some ([.lit (aluName op)] ++ (← loc l))
  | .alu op (.imm _) => some [.lit (aluName op ++ "$"), .b1]
  | .inc8 l => do some ([.lit "INC "] ++ (← loc l))
  | .dec8 l => do some ([.lit "DEC "] ++ (← loc l))
  | .daa => some [.lit "DAA"] | .cpl => some [.lit "CPL"] | .ccf => some [.lit "CCF"] | .scf => some [.lit "SCF"]
  | .add16 d s => some [.lit ("ADD " ++ r16Name d ++ "," ++ r16Name s)]
  | .inc16 r => some [.lit ("INC " ++ r16Name r)]
  | .dec16 r => some [.lit ("DEC " ++ r16Name r)]
  | .rlca => some [.lit "RLCA"] | .rla => some [.lit "RLA"] | .rrca => some [.lit "RRCA"] | .rra => some [.lit "RRA"]
  | .jp _ => some [.lit "JP $", .w1]
  | .jpcc cc _ => some [.lit ("JP " ++ ccName cc ++ ",$"), .w1]
  | .jr _ => some [.lit "JR $", .rel]
  | .jrcc cc _ => some [.lit ("JR " ++ ccName cc ++ ",$"), .rel]
  | .jpR r => some [.lit "JP $", .pair r]
  | .djnz _ => some [.lit "DJNZ $", .rel]
  | .call _ => some [.lit "CALL $", .w1]
  | .callcc cc _ => some [.lit ("CALL " ++ ccName cc ++ ",$"), .w1]
  | .ret => some [.lit "RET"]
  | .retcc cc => some [.lit ("RET " ++ ccName cc)]
  | .rst v => some [.lit ("RST " ++ (if v == 0 then "0" else digit (v >>> 4) ++ digit (v &&& 15)))]
  | _ => none

/-- CB page: operation and operand names (the table shows `(HL)` literally) -/
def locCB : Loc8 → String
  | .reg r => r8Name r
  | _ => "(HL)"

def mnemonicCB (i : Instr) : Option String :=
  match i with
  | .rot op l => some (rotName op ++ " " ++ locCB l)
  | .bit b l => some ("BIT " ++ digit b.toUInt16 ++ "," ++ locCB l)
  | .res b l => some ("RES " ++ digit b.toUInt16 ++ "," ++ locCB l)
  | .set b l => some ("SET " ++ digit b.toUInt16 ++ "," ++ locCB l)
  | _ => none

/-- symbolic rendering: holes become markers, adjacent literals merge -/
def showPieces : List Piece → String
  | [] => ""
  | .lit s :: r => s ++ showPieces r
  | .b1 :: r => "{b1}" ++ showPieces r
  | .b2 :: r => "{b2}" ++ showPieces r
  | .w1 :: r => "{w1}" ++ showPieces r
  | .pair p :: r => "{" ++ r16Name p ++ "}" ++ showPieces r
  | .rel :: r => "{rel}" ++ showPieces r

/-- the hexadecimal column: the opcode byte, then (optionally) the operand bytes in memory order -/
def hexColumn (op : UInt8) (shown : Nat) : List Piece :=
  let h := fun (n : UInt8) => String.singleton (if n < 10 then Char.ofNat (48 + n.toNat) else Char.ofNat (55 + n.toNat))
  [.lit (h (op >>> 4) ++ h (op &&& 15))] ++
  (match shown with
   | 0 => []
   | 1 => [.lit " ", .b1]
   | _ => [.lit " ", .b1, .lit " ", .b2])

end Z80.Spec
