/-
  Z80.Spec.Budget — "for a clock of f MHz and a slice of d ms the budget is f x 1000 x d T-states", for a
  clock given as an IEEE-754 single (the argument type of `set_freq`): exact rational arithmetic on the value
  the bit pattern denotes.  Import-free.
-/
namespace Z80.Spec

/-- a positive normal single: (m, e) with value m * 2^(e - 150), 2^23 <= m < 2^24 -/
def f32Parts (bits : UInt32) : Option (Nat × Nat) :=
  let e := (bits >>> 23).toNat % 256
  if (bits >>> 31).toNat = 1 ∨ e = 0 ∨ e = 255 then none else some (2 ^ 23 + bits.toNat % 2 ^ 23, e)

/-- f x 1000 x d for f = m * 2^(e-150) as (whole T-states, numerator and denominator of the fraction left over) -/
def budgetExact (m e d : Nat) : Nat × Nat × Nat :=
  if e ≥ 150 then (m * 1000 * d * 2 ^ (e - 150), 0, 1)
  else (m * 1000 * d / 2 ^ (150 - e), m * 1000 * d % 2 ^ (150 - e), 2 ^ (150 - e))

/-- the fraction is at least 0.05 away from both neighbouring integers: the two f32 roundings of the
    implementation (together below 0.02 for budgets under 2^20) cannot move the truncated result -/
def budgetRobust (r den : Nat) : Bool := decide (den ≤ 20 * r) && decide (20 * r ≤ 19 * den)

def budgetOfBits (bits : UInt32) (d : Nat) : Option (Nat × Bool) :=
  match f32Parts bits with
  | none => none
  | some (m, e) => let b := budgetExact m e d; some (b.1, budgetRobust b.2.1 b.2.2)

end Z80.Spec
