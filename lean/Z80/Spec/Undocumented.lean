/-
  Z80.Spec.Undocumented — what the ED-page encodings that Zilog does not document do on the real part
  (the widely published behaviour: mirrors of NEG, RETN, IM n, and two-byte no-operations).  The pinned tree
  reports all of them as unknown, and so does the model; this table is only used to judge an implementation that
  chooses to execute one of them ("executed as the instruction it encodes", C05).  Import-free.
-/
import Z80.Model.Instr
namespace Z80.Spec

/-- the instruction an undocumented ED-page encoding stands for; `none`: documented, I/O, or not listed here -/
def undocED (op : UInt8) : Option Instr :=
  if op == 0x4C || op == 0x54 || op == 0x5C || op == 0x64 || op == 0x6C || op == 0x74 || op == 0x7C then some .neg
  else if op == 0x55 || op == 0x5D || op == 0x65 || op == 0x6D || op == 0x75 || op == 0x7D then some .retn
  else if op == 0x4E || op == 0x66 || op == 0x6E then some (.im 0)
  else if op == 0x76 then some (.im 1)
  else if op == 0x7E then some (.im 2)
  else if op == 0x77 || op == 0x7F then some .nop
  else if op < 0x40 || (0x80 ≤ op && op < 0xA0) || op ≥ 0xC0 then some .nop
  else if (op &&& 0xF4) == 0xA4 || (op &&& 0xF4) == 0xB4 then some .nop      -- A4-A7, AC-AF, B4-B7, BC-BF
  else none

end Z80.Spec
