/-
  Z80.Spec.Timing — which encodings the Zilog manual documents, and the T-states it publishes
  for them (Z80 CPU User Manual UM0080, instruction descriptions and summary tables), written
  per instruction class.  Independent of the interpreter's tables.  Import-free.
-/
import Z80.Model.Instr
namespace Z80.Spec

/-- documented rows of each page (the I/O group included; `io` singles it out). -/
def documented (page : Page) (op : UInt8) : Bool :=
  match page with
  | .base => !isPrefix op
  | .cb => !(0x30 ≤ op && op ≤ 0x37)                       -- SLL is undocumented
  | .ed =>
    match op with
    | 0x40 | 0x48 | 0x50 | 0x58 | 0x60 | 0x68 | 0x78            -- IN r,(C)
    | 0x41 | 0x49 | 0x51 | 0x59 | 0x61 | 0x69 | 0x79            -- OUT (C),r
    | 0x42 | 0x52 | 0x62 | 0x72 | 0x4A | 0x5A | 0x6A | 0x7A     -- SBC/ADC HL,ss
    | 0x43 | 0x53 | 0x63 | 0x73 | 0x4B | 0x5B | 0x6B | 0x7B     -- LD (nn),dd / LD dd,(nn)
    | 0x44 | 0x45 | 0x4D | 0x46 | 0x56 | 0x5E                   -- NEG RETN RETI IM 0/1/2
    | 0x47 | 0x4F | 0x57 | 0x5F | 0x67 | 0x6F                   -- LD I,A LD R,A LD A,I LD A,R RRD RLD
    | 0xA0 | 0xA1 | 0xA2 | 0xA3 | 0xA8 | 0xA9 | 0xAA | 0xAB     -- LDI CPI INI OUTI LDD CPD IND OUTD
    | 0xB0 | 0xB1 | 0xB2 | 0xB3 | 0xB8 | 0xB9 | 0xBA | 0xBB => true
    | _ => false
  | .dd | .fd =>
    match op with
    | 0x09 | 0x19 | 0x29 | 0x39 | 0x21 | 0x22 | 0x2A | 0x23 | 0x2B | 0x34 | 0x35 | 0x36
    | 0x46 | 0x4E | 0x56 | 0x5E | 0x66 | 0x6E | 0x7E | 0x70 | 0x71 | 0x72 | 0x73 | 0x74 | 0x75 | 0x77
    | 0x86 | 0x8E | 0x96 | 0x9E | 0xA6 | 0xAE | 0xB6 | 0xBE | 0xE1 | 0xE3 | 0xE5 | 0xE9 | 0xF9 => true
    | _ => false
  | .ddcb | .fdcb => (op &&& 7) == 6 && op != 0x36

/-- the input/output group, which this emulator version does not implement. -/
def io (page : Page) (op : UInt8) : Bool :=
  match page with
  | .base => op == 0xDB || op == 0xD3
  | .ed =>
    match op with
    | 0x40 | 0x48 | 0x50 | 0x58 | 0x60 | 0x68 | 0x78 | 0x41 | 0x49 | 0x51 | 0x59 | 0x61 | 0x69 | 0x79
    | 0xA2 | 0xA3 | 0xAA | 0xAB | 0xB2 | 0xB3 | 0xBA | 0xBB => true
    | _ => false
  | _ => false

def isIdxMem : Loc8 → Bool | .mem (.idx _ _) => true | _ => false
def isHLMem : Loc8 → Bool | .mem .hl => true | _ => false
def isReg : Loc8 → Bool | .reg _ => true | _ => false
def isIdx16 : R16 → Bool | .ix | .iy => true | _ => false

/-- T-states per class (taken / not taken where they differ).  `none`: no published figure
    (unknown encodings; the register-half forms of the undocumented DD/FD rows are not asked). -/
def timing (page : Page) (i : Instr) (tk : Bool) : Option Nat :=
  match i with
  | .nop | .halt | .di | .ei => some 4
  | .im _ => some 8
  | .ld8 dst src =>
    match dst, src with
    | .reg _, .loc (.reg _) => some 4
    | .reg _, .imm _ => some 7
    | .reg _, .loc (.mem .hl) | .reg _, .loc (.mem .bc) | .reg _, .loc (.mem .de) => some 7
    | .mem .hl, .loc (.reg _) | .mem .bc, .loc (.reg _) | .mem .de, .loc (.reg _) => some 7
    | .mem .hl, .imm _ => some 10
    | .reg _, .loc (.mem (.idx _ _)) | .mem (.idx _ _), .loc (.reg _) | .mem (.idx _ _), .imm _ => some 19
    | .reg _, .loc (.mem (.abs _)) | .mem (.abs _), .loc (.reg _) => some 13
    | _, _ => none
  | .ldAI | .ldAR | .ldIA | .ldRA => some 9
  | .ld16 dst _ => some (if isIdx16 dst then 14 else 10)
  | .ld16m dst _ => some (if isIdx16 dst || page == .ed then 20 else 16)
  | .st16m _ src => some (if isIdx16 src || page == .ed then 20 else 16)
  | .ldSP src => some (if isIdx16 src then 10 else 6)
  | .push r => some (if isIdx16 r then 15 else 11)
  | .pop r => some (if isIdx16 r then 14 else 10)
  | .exDEHL | .exAF | .exx => some 4
  | .exSP r => some (if isIdx16 r then 23 else 19)
  | .ldi | .ldd | .cpi | .cpd => some 16
  | .ldir | .lddr | .cpir | .cpdr => none          -- per iteration: see `blockTiming`
  | .alu _ src =>
    match src with
    | .loc (.reg _) => some 4
    | .imm _ => some 7
    | .loc (.mem .hl) => some 7
    | .loc (.mem (.idx _ _)) => some 19
    | _ => none
  | .inc8 l | .dec8 l => if isReg l then some 4 else if isHLMem l then some 11 else if isIdxMem l then some 23 else none
  | .daa | .cpl | .ccf | .scf => some 4
  | .neg => some 8
  | .add16 dst _ => some (if isIdx16 dst then 15 else 11)
  | .adc16 _ | .sbc16 _ => some 15
  | .inc16 r | .dec16 r => some (if isIdx16 r then 10 else 6)
  | .rlca | .rla | .rrca | .rra => some 4
  | .rot _ l => if isReg l then some 8 else if isHLMem l then some 15 else if isIdxMem l then some 23 else none
  | .rld | .rrd => some 18
  | .bit _ l => if isReg l then some 8 else if isHLMem l then some 12 else if isIdxMem l then some 20 else none
  | .set _ l | .res _ l => if isReg l then some 8 else if isHLMem l then some 15 else if isIdxMem l then some 23 else none
  | .jp _ | .jpcc _ _ => some 10
  | .jr _ => some 12
  | .jrcc _ _ => some (if tk then 12 else 7)
  | .jpR r => some (if isIdx16 r then 8 else 4)
  | .djnz _ => some (if tk then 13 else 8)
  | .call _ => some 17
  | .callcc _ _ => some (if tk then 17 else 10)
  | .ret => some 10
  | .retcc _ => some (if tk then 11 else 5)
  | .reti | .retn => some 14
  | .rst _ => some 11
  | .unknown => none

/-- LDIR/LDDR/CPIR/CPDR executed as one step of `k ≥ 1` iterations: 21 T-states for each
    iteration that repeats, 16 for the last. -/
def blockTiming (k : Nat) : Nat := 21 * (k - 1) + 16

def isBlockRepeat : Instr → Bool
  | .ldir | .lddr | .cpir | .cpdr => true
  | _ => false

end Z80.Spec
