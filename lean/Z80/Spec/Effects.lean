/-
  Z80.Spec.Effects — a second, independent semantics of every instruction class for C01: what the
  Zilog manual's "operation" line says, written as a list of parallel assignments to named registers
  and a list of byte stores, all computed from the state BEFORE the step.

  It is independent of `Z80.exec` in the sense that matters: registers are addressed by name
  (`getReg`), pairs are `high * 256 + low`, halves are `w / 256` and `w % 256`, displacements are
  sign-extended by a comparison with 128, arithmetic results come from `Spec.Arith` (natural-number
  arithmetic), and nothing here calls an `Alu.*` core, `mkWord`, `hiByte`, `displace` or a setter.
  F, PC and R are outside C01 (C02, C03); F' takes part in EX AF,AF' as a plain byte.
-/
import Z80.Spec.Arith
import Z80.Spec.Footprint
namespace Z80.Spec

structure Eff where
  regs : List (RegName × UInt16) := []
  mem : List (UInt16 × UInt16) := []      -- (address, byte value) in store order

/-- a list of parallel assignments applied to a register file -/
def assign (l : List (RegName × UInt16)) (g : RegName → UInt16) (r : RegName) : UInt16 :=
  match l.find? (fun p => p.1 == r) with
  | some p => p.2
  | none => g r

/-- the byte stores, in order, on the bus (which ignores stores above the top address and into ROM) -/
def store (l : List (UInt16 × UInt16)) (b : Bus) : Bus :=
  l.foldl (fun b p => b.writeByte p.1 p.2.toUInt8) b

def hi (w : UInt16) : UInt16 := w / 256
def lo (w : UInt16) : UInt16 := w % 256
def word (h l : UInt16) : UInt16 := h * 256 + l
def ofN (n : Nat) : UInt16 := UInt16.ofNat n

/-- the flag byte as a number (S Z - H - P/V N C = bits 7 6 4 2 1 0; the two unused bits as stored) -/
def fByte (f : Flags) : UInt16 :=
  ofN (128 * b2n f.s + 64 * b2n f.z + 32 * b2n f.b5 + 16 * b2n f.h + 8 * b2n f.b3 + 4 * b2n f.p + 2 * b2n f.n + b2n f.c)

def pairV (x : Arch) : R16 → UInt16
  | .bc => word (getReg x .b) (getReg x .c)
  | .de => word (getReg x .d) (getReg x .e)
  | .hl => word (getReg x .h) (getReg x .l)
  | .ix => word (getReg x .ixh) (getReg x .ixl)
  | .iy => word (getReg x .iyh) (getReg x .iyl)
  | .sp => getReg x .sp
  | .af => word (getReg x .a) (fByte x.reg.flags)

def setPair : R16 → UInt16 → List (RegName × UInt16)
  | .bc, w => [(.b, hi w), (.c, lo w)]
  | .de, w => [(.d, hi w), (.e, lo w)]
  | .hl, w => [(.h, hi w), (.l, lo w)]
  | .ix, w => [(.ixh, hi w), (.ixl, lo w)]
  | .iy, w => [(.iyh, hi w), (.iyl, lo w)]
  | .sp, w => [(.sp, w)]
  | .af, w => [(.a, hi w)]

/-- two's-complement displacement -/
def sx (d : UInt8) : UInt16 := if d.toNat < 128 then ofN d.toNat else ofN (d.toNat + 65280)

def addrV (x : Arch) : MemRef → UInt16
  | .hl => pairV x .hl | .bc => pairV x .bc | .de => pairV x .de
  | .idx .ix d => pairV x .ix + sx d
  | .idx .iy d => pairV x .iy + sx d
  | .abs nn => nn

def memV (x : Arch) (a : UInt16) : UInt16 := (x.bus.readByte a).toUInt16
def wordAt (x : Arch) (a : UInt16) : UInt16 := word (memV x (a + 1)) (memV x a)

def locV (x : Arch) : Loc8 → UInt16
  | .reg r => getReg x (ofR8 r)
  | .mem m => memV x (addrV x m)

def opV (x : Arch) : Op8 → UInt16
  | .loc l => locV x l
  | .imm n => n.toUInt16

def putLoc (x : Arch) : Loc8 → UInt16 → Eff
  | .reg r, v => { regs := [(ofR8 r, v)] }
  | .mem m, v => { mem := [(addrV x m, v)] }

def holds (f : Flags) : Cc → Bool
  | .nz => f.z == false | .z => f.z == true | .nc => f.c == false | .c => f.c == true
  | .po => f.p == false | .pe => f.p == true | .p => f.s == false | .m => f.s == true

def aluV (op : AluOp) (a n c : Nat) : Nat :=
  match op with
  | .add => (addW 8 a n 0).r | .adc => (addW 8 a n c).r | .sub => (subW 8 a n 0).r | .sbc => (subW 8 a n c).r
  | .and => a &&& n | .xor => a ^^^ n | .or => a ||| n | .cp => a

def rotV (op : RotOp) (n c : Nat) : Nat :=
  match op with
  | .rlc => (rlc n).1 | .rrc => (rrc n).1 | .rl => (rl n c).1 | .rr => (rr n c).1
  | .sla => (sla n).1 | .sra => (sra n).1 | .sll => (sll n).1 | .srl => (srl n).1

/-- word pushed: low byte at SP-2, high byte at SP-1 (stored low first here; the two cells differ, so the
    order is immaterial) -/
def pushStores (sp w : UInt16) : List (UInt16 × UInt16) := [(sp - 2, lo w), (sp - 2 + 1, hi w)]

/-- The manual's operation for each instruction; `ret` is the address of the following instruction. -/
def effects (i : Instr) (ret : UInt16) (x : Arch) : Eff :=
  let a := (getReg x .a).toNat
  let c := b2n x.reg.flags.c
  let sp := getReg x .sp
  match i with
  | .ld8 dst src => putLoc x dst (opV x src)
  | .ldAI => { regs := [(.a, getReg x .i)] }
  | .ldAR => { regs := [(.a, x.reg.r.toUInt16)] }
  | .ldIA => { regs := [(.i, getReg x .a)] }
  | .ld16 dst nn => { regs := setPair dst nn }
  | .ld16m dst nn => { regs := setPair dst (wordAt x nn) }
  | .st16m nn src => { mem := [(nn, lo (pairV x src)), (nn + 1, hi (pairV x src))] }
  | .ldSP src => { regs := [(.sp, pairV x src)] }
  | .push r => { regs := [(.sp, sp - 2)], mem := pushStores sp (pairV x r) }
  | .pop r => { regs := setPair r (wordAt x sp) ++ [(.sp, sp + 2)] }
  | .exDEHL => { regs := [(.d, getReg x .h), (.e, getReg x .l), (.h, getReg x .d), (.l, getReg x .e)] }
  | .exAF => { regs := [(.a, getReg x .a'), (.a', getReg x .a), (.f', fByte x.reg.flags)] }
  | .exx => { regs := [(.b, getReg x .b'), (.c, getReg x .c'), (.d, getReg x .d'), (.e, getReg x .e'),
                       (.h, getReg x .h'), (.l, getReg x .l'), (.b', getReg x .b), (.c', getReg x .c),
                       (.d', getReg x .d), (.e', getReg x .e), (.h', getReg x .h), (.l', getReg x .l)] }
  | .exSP r => { regs := setPair r (wordAt x sp), mem := [(sp, lo (pairV x r)), (sp + 1, hi (pairV x r))] }
  | .ldi => { regs := setPair .de (pairV x .de + 1) ++ setPair .hl (pairV x .hl + 1) ++ setPair .bc (pairV x .bc - 1),
              mem := [(pairV x .de, memV x (pairV x .hl))] }
  | .ldd => { regs := setPair .de (pairV x .de - 1) ++ setPair .hl (pairV x .hl - 1) ++ setPair .bc (pairV x .bc - 1),
              mem := [(pairV x .de, memV x (pairV x .hl))] }
  | .cpi => { regs := setPair .hl (pairV x .hl + 1) ++ setPair .bc (pairV x .bc - 1) }
  | .cpd => { regs := setPair .hl (pairV x .hl - 1) ++ setPair .bc (pairV x .bc - 1) }
  | .alu .cp _ => {}
  | .alu op src => { regs := [(.a, ofN (aluV op a (opV x src).toNat c))] }
  | .inc8 l => putLoc x l (ofN (addW 8 (locV x l).toNat 1 0).r)
  | .dec8 l => putLoc x l (ofN (subW 8 (locV x l).toNat 1 0).r)
  | .daa =>
    match daaTable x.reg.flags.n x.reg.flags.c (a / 16) x.reg.flags.h (a % 16) with
    | some (add, _) => { regs := [(.a, ofN ((a + add) % 256))] }
    | none => {}
  | .cpl => { regs := [(.a, ofN (255 - a))] }
  | .neg => { regs := [(.a, ofN (subW 8 0 a 0).r)] }
  | .add16 dst src => { regs := setPair dst (ofN (addW 16 (pairV x dst).toNat (pairV x src).toNat 0).r) }
  | .adc16 src => { regs := setPair .hl (ofN (addW 16 (pairV x .hl).toNat (pairV x src).toNat c).r) }
  | .sbc16 src => { regs := setPair .hl (ofN (subW 16 (pairV x .hl).toNat (pairV x src).toNat c).r) }
  | .inc16 r => { regs := setPair r (pairV x r + 1) }
  | .dec16 r => { regs := setPair r (pairV x r - 1) }
  | .rlca => { regs := [(.a, ofN (rlc a).1)] }
  | .rla => { regs := [(.a, ofN (rl a c).1)] }
  | .rrca => { regs := [(.a, ofN (rrc a).1)] }
  | .rra => { regs := [(.a, ofN (rr a c).1)] }
  | .rot op l => putLoc x l (ofN (rotV op (locV x l).toNat c))
  | .rld => { regs := [(.a, ofN (rld a (memV x (pairV x .hl)).toNat).1)],
              mem := [(pairV x .hl, ofN (rld a (memV x (pairV x .hl)).toNat).2)] }
  | .rrd => { regs := [(.a, ofN (rrd a (memV x (pairV x .hl)).toNat).1)],
              mem := [(pairV x .hl, ofN (rrd a (memV x (pairV x .hl)).toNat).2)] }
  | .set b l => putLoc x l (ofN ((locV x l).toNat ||| 2 ^ b.toNat))
  | .res b l => putLoc x l (ofN ((locV x l).toNat &&& (255 - 2 ^ b.toNat)))
  | .djnz _ => { regs := [(.b, ofN (subW 8 (getReg x .b).toNat 1 0).r)] }
  | .call _ | .rst _ => { regs := [(.sp, sp - 2)], mem := pushStores sp ret }
  | .callcc cc _ => if holds x.reg.flags cc then { regs := [(.sp, sp - 2)], mem := pushStores sp ret } else {}
  | .ret | .reti | .retn => { regs := [(.sp, sp + 2)] }
  | .retcc cc => if holds x.reg.flags cc then { regs := [(.sp, sp + 2)] } else {}
  | _ => {}

/-- where the manual defines the operation by a single parallel assignment: everything except the four
    repeating block instructions (C19 relates those to their single-step forms), DAA on an accumulator
    that is not the result of a BCD operation (no row in the manual's table), POP into SP (no such
    instruction) and bit numbers above 7 (not encodable) -/
def defined (i : Instr) (x : Arch) : Prop :=
  match i with
  | .ldir | .lddr | .cpir | .cpdr => False
  | .daa => (daaTable x.reg.flags.n x.reg.flags.c ((getReg x .a).toNat / 16) x.reg.flags.h ((getReg x .a).toNat % 16)).isSome
  | .pop r => r ≠ .sp
  | .set b _ | .res b _ => b.toNat < 8
  | _ => True

end Z80.Spec
