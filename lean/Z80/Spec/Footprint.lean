/-
  Z80.Spec.Footprint — for every instruction, the registers it is specified to write and, as a
  function of the state before it, the memory addresses it is specified to write (Zilog manual,
  "operation" column).  F, PC and R are outside C01 and not listed.  Import-free.
-/
import Z80.Model.Exec
namespace Z80.Spec

/-- the registers C01 speaks about -/
inductive RegName
  | a | b | c | d | e | h | l | ixh | ixl | iyh | iyl | i | sp
  | a' | f' | b' | c' | d' | e' | h' | l'
deriving DecidableEq, Repr, Inhabited

def getReg (x : Arch) : RegName → UInt16
  | .a => x.reg.a.toUInt16 | .b => x.reg.b.toUInt16 | .c => x.reg.c.toUInt16 | .d => x.reg.d.toUInt16
  | .e => x.reg.e.toUInt16 | .h => x.reg.h.toUInt16 | .l => x.reg.l.toUInt16
  | .ixh => x.reg.ixh.toUInt16 | .ixl => x.reg.ixl.toUInt16 | .iyh => x.reg.iyh.toUInt16 | .iyl => x.reg.iyl.toUInt16
  | .i => x.reg.i.toUInt16 | .sp => x.reg.sp
  | .a' => x.alt.a.toUInt16 | .f' => x.alt.flags.toByte.toUInt16 | .b' => x.alt.b.toUInt16 | .c' => x.alt.c.toUInt16
  | .d' => x.alt.d.toUInt16 | .e' => x.alt.e.toUInt16 | .h' => x.alt.h.toUInt16 | .l' => x.alt.l.toUInt16

def ofR8 : R8 → RegName
  | .a => .a | .b => .b | .c => .c | .d => .d | .e => .e | .h => .h | .l => .l
  | .ixh => .ixh | .ixl => .ixl | .iyh => .iyh | .iyl => .iyl

/-- byte registers making up a 16-bit register (AF: only A, F is C02's) -/
def ofR16 : R16 → List RegName
  | .bc => [.b, .c] | .de => [.d, .e] | .hl => [.h, .l] | .sp => [.sp]
  | .ix => [.ixh, .ixl] | .iy => [.iyh, .iyl] | .af => [.a]

def ofLoc : Loc8 → List RegName
  | .reg r => [ofR8 r]
  | .mem _ => []

/-- registers the instruction is specified to write -/
def regsWritten : Instr → List RegName
  | .ld8 dst _ => ofLoc dst
  | .ldAI | .ldAR => [.a]
  | .ldIA => [.i]
  | .ld16 dst _ | .ld16m dst _ => ofR16 dst
  | .ldSP _ => [.sp]
  | .push _ => [.sp]
  | .pop r => .sp :: ofR16 r
  | .exDEHL => [.d, .e, .h, .l]
  | .exAF => [.a, .a', .f']
  | .exx => [.b, .c, .d, .e, .h, .l, .b', .c', .d', .e', .h', .l']
  | .exSP r => ofR16 r
  | .ldi | .ldd | .ldir | .lddr => [.b, .c, .d, .e, .h, .l]
  | .cpi | .cpd | .cpir | .cpdr => [.b, .c, .h, .l]
  | .alu op _ => match op with | .cp => [] | _ => [.a]
  | .inc8 l | .dec8 l | .rot _ l | .set _ l | .res _ l => ofLoc l
  | .daa | .cpl | .neg | .rlca | .rla | .rrca | .rra | .rld | .rrd => [.a]
  | .add16 dst _ => ofR16 dst
  | .adc16 _ | .sbc16 _ => [.h, .l]
  | .inc16 r | .dec16 r => ofR16 r
  | .djnz _ => [.b]
  | .call _ | .callcc _ _ | .rst _ | .ret | .retcc _ | .reti | .retn => [.sp]
  | _ => []

/-- addresses a single (non-repeating) instruction is specified to write, from the state before it -/
def addrsWritten (i : Instr) (x : Arch) : List UInt16 :=
  match i with
  | .ld8 (.mem m) _ => [x.addrOf m]
  | .st16m nn _ => [nn, nn + 1]
  | .push _ | .call _ | .callcc _ _ | .rst _ => [x.reg.sp - 2, x.reg.sp - 2 + 1]
  | .exSP _ => [x.reg.sp, x.reg.sp + 1]
  | .inc8 (.mem m) | .dec8 (.mem m) | .rot _ (.mem m) | .set _ (.mem m) | .res _ (.mem m) => [x.addrOf m]
  | .rld | .rrd => [x.reg.getHL]
  | .ldi | .ldd => [x.reg.getDE]
  | _ => []

def isBlockLoad : Instr → Bool | .ldir | .lddr => true | _ => false

end Z80.Spec
