/-
  Z80.Model.Run — histories: everything a host program can do to a CPU object between steps
  (the whole public API of the crate).  Import-free.
-/
import Z80.Model.Step
namespace Z80

inductive Event
  | step                                  -- `execute()`
  | timed (elapsed : Option UInt32)       -- `execute_timed()`
  | int (b : UInt8)                       -- `int_request(b)`
  | nmi                                   -- `nmi_request()`
  | writeByte (a : UInt16) (v : UInt8)    -- `bus.write_byte`
  | writeWord (a : UInt16) (w : UInt16)   -- `bus.write_word`
  | setRom (s : UInt16) (e : UInt16)      -- `bus.set_romspace` (a new declaration replaces the old one)
  | load (file : Option (List UInt8)) (org : UInt16)   -- `bus.load_bin` (`none`: the file cannot be opened)
  | clear (s e : Nat)                     -- `bus.clear_mem_slice`
  | observe                               -- the read accessors, `read_mem_slice`, `dasm`, `flags()`: no effect
  | setFreq (n8 : UInt32)                 -- `set_freq(n8 / 8 MHz)` on the grid of `Cpu.setFreqEighths`
  | setSliceDuration (d : UInt32)         -- `set_slice_duration`
  | hostReg (which : Nat) (v : UInt16)    -- the host assigns `c.reg.*` (0 BC 1 DE 2 HL 3 IX 4 IY 5 SP 6 PC, else AF)
deriving DecidableEq, Repr, Inhabited

def Cpu.withBus (c : Cpu) (b : Bus) : Cpu := { c with arch := { c.arch with bus := b } }

def Regs.hostSet (r : Regs) (which : Nat) (v : UInt16) : Regs :=
  match which with
  | 0 => r.setBC v | 1 => r.setDE v | 2 => r.setHL v | 3 => r.setIX v | 4 => r.setIY v
  | 5 => { r with sp := v } | 6 => { r with pc := v } | _ => r.setAF v

/-- `load_bin` on the CPU's bus: a file that cannot be opened (error value) and a request the real code
    aborts on (`none`) both leave the object as it was -/
def Cpu.loadBin (c : Cpu) (file : Option (List UInt8)) (org : UInt16) : Cpu :=
  match c.arch.bus.loadBin file org with
  | some (.ok (b, _)) => c.withBus b
  | _ => c

def Cpu.clearSlice (c : Cpu) (s e : Nat) : Cpu :=
  match c.arch.bus.clearMemSlice s e with
  | some b => c.withBus b
  | none => c

def runEvent (c : Cpu) : Event → Cpu
  | .step => (step c).1
  | .timed e => (executeTimed c e).1
  | .int b => c.intRequest b
  | .nmi => c.nmiRequest
  | .writeByte a v => c.withBus (c.arch.bus.writeByte a v)
  | .writeWord a w => c.withBus (c.arch.bus.writeWord a w)
  | .setRom s e => c.withBus (c.arch.bus.setRomspace s e)
  | .load file org => c.loadBin file org
  | .clear s e => c.clearSlice s e
  | .observe => c
  | .setFreq n8 => c.setFreqEighths n8
  | .setSliceDuration d => c.setSliceDuration d
  | .hostReg which v => { c with arch := { c.arch with reg := c.arch.reg.hostSet which v } }

/-- does the history (re)declare the ROM range? -/
def Event.isSetRom : Event → Bool | .setRom _ _ => true | _ => false

/-- the host utilities that overwrite memory wholesale, ROM included (`load_bin` is how a ROM image gets there):
    C07 speaks about what the CPU executes and about byte/word writes, not about these -/
def Event.overwrites : Event → Bool | .load _ _ => true | .clear _ _ => true | _ => false

def run (c : Cpu) (es : List Event) : Cpu := es.foldl runEvent c

end Z80
