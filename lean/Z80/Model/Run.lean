/-
  Z80.Model.Run — histories: what a host program can do to a CPU between steps.  Import-free.
-/
import Z80.Model.Step
namespace Z80

inductive Event
  | step                                  -- `execute()`
  | timed (elapsed : Option UInt32)       -- `execute_timed()`
  | int (b : UInt8)                       -- `int_request(b)`
  | nmi                                   -- `nmi_request()`
  | writeByte (a : UInt16) (v : UInt8)    -- `bus.write_byte`
  | writeWord (a : UInt16) (w : UInt16)   -- `bus.write_word`
  | setRom (s : UInt16) (e : UInt16)      -- `bus.set_romspace` (a new declaration replaces the old one)
deriving DecidableEq, Repr, Inhabited

def Cpu.withBus (c : Cpu) (b : Bus) : Cpu := { c with arch := { c.arch with bus := b } }

def runEvent (c : Cpu) : Event → Cpu
  | .step => (step c).1
  | .timed e => (executeTimed c e).1
  | .int b => c.intRequest b
  | .nmi => c.nmiRequest
  | .writeByte a v => c.withBus (c.arch.bus.writeByte a v)
  | .writeWord a w => c.withBus (c.arch.bus.writeWord a w)
  | .setRom s e => c.withBus (c.arch.bus.setRomspace s e)

/-- does the history (re)declare the ROM range? -/
def Event.isSetRom : Event → Bool | .setRom _ _ => true | _ => false

def run (c : Cpu) (es : List Event) : Cpu := es.foldl runEvent c

end Z80
