/-
  Z80.Model.Basic — flags, register file and bus of nicolasbauw/ZilogZ80,
  transcribed function by function from src/flags.rs, src/registers.rs,
  src/bit.rs and src/bus.rs.  Import-free (compiles into the driver).
-/
namespace Z80

/-! ### bit.rs -/

@[inline] def bitGet (n : UInt8) (b : UInt8) : Bool := (n &&& ((1 : UInt8) <<< b)) != 0
@[inline] def bitSet (n : UInt8) (b : UInt8) : UInt8 := n ||| ((1 : UInt8) <<< b)
@[inline] def bitReset (n : UInt8) (b : UInt8) : UInt8 := n &&& ~~~((1 : UInt8) <<< b)

/-! ### flags.rs -/

structure Flags where
  s : Bool := false
  z : Bool := false
  b5 : Bool := false
  h : Bool := false
  b3 : Bool := false
  p : Bool := false
  n : Bool := false
  c : Bool := false
deriving DecidableEq, Repr, Inhabited

@[inline] def b2u8 (b : Bool) (v : UInt8) : UInt8 := if b then v else 0

def Flags.toByte (f : Flags) : UInt8 :=
  b2u8 f.s 0x80 ||| b2u8 f.z 0x40 ||| b2u8 f.b5 0x20 ||| b2u8 f.h 0x10 |||
  b2u8 f.b3 0x08 ||| b2u8 f.p 0x04 ||| b2u8 f.n 0x02 ||| b2u8 f.c 0x01

def Flags.ofByte (b : UInt8) : Flags :=
  { s := (b &&& 0x80) != 0, z := (b &&& 0x40) != 0, b5 := (b &&& 0x20) != 0,
    h := (b &&& 0x10) != 0, b3 := (b &&& 0x08) != 0, p := (b &&& 0x04) != 0,
    n := (b &&& 0x02) != 0, c := (b &&& 0x01) != 0 }

/-! ### registers.rs -/

structure Regs where
  a : UInt8 := 0
  b : UInt8 := 0
  c : UInt8 := 0
  d : UInt8 := 0
  e : UInt8 := 0
  h : UInt8 := 0
  l : UInt8 := 0
  ixh : UInt8 := 0
  ixl : UInt8 := 0
  iyh : UInt8 := 0
  iyl : UInt8 := 0
  i : UInt8 := 0
  r : UInt8 := 0
  sp : UInt16 := 0
  pc : UInt16 := 0
  flags : Flags := {}
deriving DecidableEq, Repr, Inhabited

@[inline] def mkWord (hi lo : UInt8) : UInt16 := (hi.toUInt16 <<< 8) ||| lo.toUInt16
@[inline] def hiByte (v : UInt16) : UInt8 := ((v &&& 0xFF00) >>> 8).toUInt8
@[inline] def loByte (v : UInt16) : UInt8 := (v &&& 0xFF).toUInt8

namespace Regs
def getBC (r : Regs) : UInt16 := mkWord r.b r.c
def setBC (r : Regs) (v : UInt16) : Regs := { r with b := hiByte v, c := loByte v }
def getDE (r : Regs) : UInt16 := mkWord r.d r.e
def setDE (r : Regs) (v : UInt16) : Regs := { r with d := hiByte v, e := loByte v }
def getHL (r : Regs) : UInt16 := mkWord r.h r.l
def setHL (r : Regs) (v : UInt16) : Regs := { r with h := hiByte v, l := loByte v }
def getIX (r : Regs) : UInt16 := mkWord r.ixh r.ixl
def setIX (r : Regs) (v : UInt16) : Regs := { r with ixh := hiByte v, ixl := loByte v }
def getIY (r : Regs) : UInt16 := mkWord r.iyh r.iyl
def setIY (r : Regs) (v : UInt16) : Regs := { r with iyh := hiByte v, iyl := loByte v }
def getAF (r : Regs) : UInt16 := mkWord r.a r.flags.toByte
def setAF (r : Regs) (v : UInt16) : Regs := { r with a := hiByte v, flags := Flags.ofByte (loByte v) }
end Regs

/-! ### bus.rs -/

/-- `mem.size` is `size + 1` of `Bus::new(size)`; `rom` is `Some ROMSpace{start,end}`. -/
structure Bus where
  mem : Array UInt8
  rom : Option (UInt16 × UInt16) := none
deriving DecidableEq, Repr, Inhabited

namespace Bus

def new (size : UInt16) : Bus := { mem := Array.replicate (size.toNat + 1) 0, rom := none }

def setRomspace (b : Bus) (s e : UInt16) : Bus := { b with rom := some (s, e) }

/-- The ROM test of `write_byte`. -/
def inRom (b : Bus) (a : UInt16) : Bool :=
  match b.rom with
  | none => false
  | some (s, e) => s ≤ a && a ≤ e

/-- `read_byte`: 0 above the top address. -/
@[inline] def readByte (b : Bus) (a : UInt16) : UInt8 := b.mem.getD a.toNat 0

/-- `write_byte`: ignored above the top address and inside ROM. -/
def writeByte (b : Bus) (a : UInt16) (v : UInt8) : Bus :=
  if b.inRom a then b else { b with mem := b.mem.setIfInBounds a.toNat v }

/- compiler-only replacement (`@[csimp]`, kernel-checked equal to the definition above): takes the owner of the
   memory array apart first, so that the array is updated in place instead of being copied -/
def writeByteFast (b : Bus) (a : UInt16) (v : UInt8) : Bus :=
  match b with
  | ⟨mem, rom⟩ =>
    let blocked := match rom with | none => false | some (s, e) => s ≤ a && a ≤ e
    if blocked then ⟨mem, rom⟩ else ⟨mem.setIfInBounds a.toNat v, rom⟩

@[csimp] theorem writeByte_eq_fast : @writeByte = @writeByteFast := by
  funext b a v
  obtain ⟨mem, rom⟩ := b
  unfold writeByte writeByteFast inRom
  cases rom <;> simp


/-- `read_word` (little-endian word at `a`, `a+1` wrapping). -/
def readWord (b : Bus) (a : UInt16) : UInt16 := mkWord (b.readByte (a + 1)) (b.readByte a)

/-- `read_le_word`: first byte in the high half. -/
def readLeWord (b : Bus) (a : UInt16) : UInt16 := mkWord (b.readByte a) (b.readByte (a + 1))

/-- `read_le_dword`: bytes at `a..a+3` from most to least significant. -/
def readLeDword (b : Bus) (a : UInt16) : UInt32 :=
  ((b.readByte a).toUInt32 <<< 24) ||| ((b.readByte (a + 1)).toUInt32 <<< 16) |||
  ((b.readByte (a + 2)).toUInt32 <<< 8) ||| (b.readByte (a + 3)).toUInt32

/-- `write_word`: low byte at `a`, high byte at `a+1` (wrapping), each through the byte guard. -/
def writeWord (b : Bus) (a : UInt16) (w : UInt16) : Bus :=
  (b.writeByte a (loByte w)).writeByte (a + 1) (w >>> 8).toUInt8

/-- `read_mem_slice(start, end)`; `none` models the panic / out-of-range request. -/
def readMemSlice (b : Bus) (s e : Nat) : Option (List UInt8) :=
  if s ≤ e ∧ e < b.mem.size then some ((b.mem.extract s (e + 1)).toList) else none

def clearLoop (m : Array UInt8) (s : Nat) : Nat → Array UInt8
  | 0 => m
  | n + 1 => clearLoop (m.setIfInBounds s 0) (s + 1) n

/-- `clear_mem_slice(start, end)` (ROM is not consulted by this host utility). -/
def clearMemSlice (b : Bus) (s e : Nat) : Option Bus :=
  if s ≤ e ∧ e < b.mem.size then some { b with mem := clearLoop b.mem s (e + 1 - s) } else none

def copyLoop (m : Array UInt8) (o : Nat) : List UInt8 → Array UInt8
  | [] => m
  | x :: xs => copyLoop (m.setIfInBounds o x) (o + 1) xs

/-- `load_bin(file, org)` with the file system as a parameter: `none` = file cannot be opened.
    Result: `.error` for the I/O error, `.ok (bus, len)`; `none` for the panic (does not fit). -/
def loadBin (b : Bus) (file : Option (List UInt8)) (org : UInt16) : Option (Except Unit (Bus × Nat)) :=
  if org.toNat ≥ b.mem.size then none else
  match file with
  | none => some (.error ())
  | some bytes =>
    if org.toNat + bytes.length ≤ b.mem.size then
      some (.ok ({ b with mem := copyLoop b.mem org.toNat bytes }, bytes.length))
    else none

end Bus
end Z80
