/-
  Z80.Model.Alu — the arithmetic/logic helpers of src/cpu.rs (l.117-540), each as a pure
  function of its operands and the incoming flags, in the code's own formulation
  (half-carry by nibble comparison, signed overflow through `i8`/`i16` arithmetic, DAA as
  the code's three-step case split).  Import-free.
-/
import Z80.Model.Basic
namespace Z80

@[inline] def parityEven (r : UInt8) : Bool :=
  -- `r.count_ones() & 1 == 0`
  let x := r ^^^ (r >>> 4)
  let x := x ^^^ (x >>> 2)
  let x := x ^^^ (x >>> 1)
  (x &&& 1) == 0

@[inline] def sign8 (r : UInt8) : Bool := r.toInt8 < 0       -- `(r as i8) < 0`
@[inline] def sign16 (r : UInt16) : Bool := r.toInt16 < 0    -- `(r as i16) < 0`
@[inline] def cbit (c : Bool) : UInt8 := if c then 1 else 0
@[inline] def cbit16 (c : Bool) : UInt16 := if c then 1 else 0

/-- signed overflow of `a + n + c` computed in wider signed arithmetic. -/
@[inline] def addOvf8 (a n : UInt8) (c : Bool) : Bool :=
  let r : Int := a.toInt8.toInt + n.toInt8.toInt + (if c then 1 else 0)
  r < -128 || r > 127
@[inline] def subOvf8 (a n : UInt8) (c : Bool) : Bool :=
  let r : Int := a.toInt8.toInt - n.toInt8.toInt - (if c then 1 else 0)
  r < -128 || r > 127
@[inline] def addOvf16 (a n : UInt16) (c : Bool) : Bool :=
  let r : Int := a.toInt16.toInt + n.toInt16.toInt + (if c then 1 else 0)
  r < -32768 || r > 32767
@[inline] def subOvf16 (a n : UInt16) (c : Bool) : Bool :=
  let r : Int := a.toInt16.toInt - n.toInt16.toInt - (if c then 1 else 0)
  r < -32768 || r > 32767

namespace Alu

def add (a n : UInt8) (f : Flags) : UInt8 × Flags :=
  let r := a + n
  (r, { f with z := r == 0, s := sign8 r, p := addOvf8 a n false,
               h := (a &&& 0x0f) + (n &&& 0x0f) > 0x0f,
               c := a.toUInt16 + n.toUInt16 > 0xff, n := false })

def adc (a n : UInt8) (f : Flags) : UInt8 × Flags :=
  let c := cbit f.c
  let r := a + n + c
  (r, { f with z := r == 0, s := sign8 r, p := addOvf8 a n f.c,
               h := (a &&& 0x0f) + (n &&& 0x0f) + c > 0x0f,
               c := a.toUInt16 + n.toUInt16 + c.toUInt16 > 0xff, n := false })

def sub (a n : UInt8) (f : Flags) : UInt8 × Flags :=
  let r := a - n
  (r, { f with z := r == 0, s := sign8 r, p := subOvf8 a n false,
               h := (a &&& 0x0f) < (n &&& 0x0f),
               c := a.toUInt16 < n.toUInt16, n := true })

def sbc (a n : UInt8) (f : Flags) : UInt8 × Flags :=
  let c := cbit f.c
  let r := a - (n + c)
  (r, { f with z := r == 0, s := sign8 r, p := subOvf8 a n f.c,
               h := (a &&& 0x0f) < (n &&& 0x0f) + c,
               c := a.toUInt16 < n.toUInt16 + c.toUInt16, n := true })

def and (a n : UInt8) (f : Flags) : UInt8 × Flags :=
  let r := a &&& n
  (r, { f with z := r == 0, s := sign8 r, p := parityEven r, h := true, c := false, n := false })

def or (a n : UInt8) (f : Flags) : UInt8 × Flags :=
  let r := a ||| n
  (r, { f with z := r == 0, s := sign8 r, p := parityEven r, h := false, c := false, n := false })

def xor (a n : UInt8) (f : Flags) : UInt8 × Flags :=
  let r := a ^^^ n
  (r, { f with z := r == 0, s := sign8 r, p := parityEven r, h := false, c := false, n := false })

def cp (a n : UInt8) (f : Flags) : UInt8 × Flags := (a, (sub a n f).2)

def inc (n : UInt8) (f : Flags) : UInt8 × Flags :=
  let r := n + 1
  (r, { f with z := r == 0, s := sign8 r, p := n == 0x7F, h := (n &&& 0x0f) + 1 > 0x0f, n := false })

def dec (n : UInt8) (f : Flags) : UInt8 × Flags :=
  let r := n - 1
  (r, { f with z := r == 0, s := sign8 r, p := n == 0x80, h := (n &&& 0x0f) < 1, n := true })

def daa (a : UInt8) (f : Flags) : UInt8 × Flags :=
  let lsb := a &&& 0x0F
  let t1 : Nat := if f.h || lsb > 9 then 1 else 0
  let hiAdj := f.c || a > 0x99
  let t : Nat := if hiAdj then t1 + 2 else t1
  let c' := if hiAdj then true else f.c
  let h' := if f.n && !f.h then false else if f.n && f.h then decide (lsb < 6) else decide (lsb ≥ 0x0A)
  let a' : UInt8 :=
    match t with
    | 1 => a + (if f.n then 0xFA else 0x06)
    | 2 => a + (if f.n then 0xA0 else 0x60)
    | 3 => a + (if f.n then 0x9A else 0x66)
    | _ => a
  (a', { f with c := c', h := h', z := a' == 0, s := bitGet a' 7, p := parityEven a' })

def neg (a : UInt8) (f : Flags) : UInt8 × Flags :=
  let r := ~~~a + 1
  (r, { f with p := a == 0x80, c := a != 0, z := r == 0, s := sign8 r, h := 0 < (a &&& 0x0F), n := true })

def add16 (n1 n2 : UInt16) (f : Flags) : UInt16 × Flags :=
  let r := n1 + n2
  (r, { f with c := n1.toUInt32 + n2.toUInt32 > 0xffff,
               h := (n1 &&& 0x0FFF) + (n2 &&& 0x0FFF) > 0x0FFF, n := false })

def adc16 (h n : UInt16) (f : Flags) : UInt16 × Flags :=
  let c := cbit16 f.c
  let r := h + n + c
  (r, { f with s := sign16 r, z := r == 0,
               c := h.toUInt32 + n.toUInt32 + c.toUInt32 > 0xffff,
               h := (h &&& 0x0FFF) + (n &&& 0x0FFF) + c > 0x0FFF, n := false,
               p := addOvf16 h n f.c })

def sbc16 (h n : UInt16) (f : Flags) : UInt16 × Flags :=
  let c := cbit16 f.c
  let r := h - n - c
  (r, { f with z := r == 0, s := sign16 r,
               h := (h &&& 0x0fff) < (n &&& 0x0fff) + c,
               c := h.toUInt32 < n.toUInt32 + c.toUInt32, n := true,
               p := subOvf16 h n f.c })

def rlca (a : UInt8) (f : Flags) : UInt8 × Flags :=
  let c := bitGet a 7
  ((a <<< 1) ||| cbit c, { f with c := c, h := false, n := false })

def rrca (a : UInt8) (f : Flags) : UInt8 × Flags :=
  let c := bitGet a 0
  ((if c then (0x80 : UInt8) ||| (a >>> 1) else a >>> 1), { f with c := c, h := false, n := false })

def rla (a : UInt8) (f : Flags) : UInt8 × Flags :=
  ((if f.c then (a <<< 1) ||| 0x01 else a <<< 1), { f with c := bitGet a 7, h := false, n := false })

def rra (a : UInt8) (f : Flags) : UInt8 × Flags :=
  ((if f.c then (a >>> 1) ||| 0x80 else a >>> 1), { f with c := bitGet a 0, h := false, n := false })

/-- common flag tail of the eight CB rotates/shifts. -/
@[inline] def szp (r : UInt8) (c : Bool) (f : Flags) : Flags :=
  { f with z := r == 0, s := sign8 r, h := false, n := false, p := parityEven r, c := c }

def rlc (n : UInt8) (f : Flags) : UInt8 × Flags :=
  let c := bitGet n 7
  let r := (n <<< 1) ||| cbit c
  (r, szp r c f)

def rrc (n : UInt8) (f : Flags) : UInt8 × Flags :=
  let c := bitGet n 0
  let r : UInt8 := if c then (0x80 : UInt8) ||| (n >>> 1) else n >>> 1
  (r, szp r c f)

def rl (n : UInt8) (f : Flags) : UInt8 × Flags :=
  let r := if f.c then (n <<< 1) ||| 0x01 else n <<< 1
  (r, szp r (bitGet n 7) f)

def rr (n : UInt8) (f : Flags) : UInt8 × Flags :=
  let r := if f.c then (n >>> 1) ||| 0x80 else n >>> 1
  (r, szp r (bitGet n 0) f)

def sla (n : UInt8) (f : Flags) : UInt8 × Flags :=
  let r := n <<< 1
  (r, szp r (bitGet n 7) f)

def sll (n : UInt8) (f : Flags) : UInt8 × Flags :=
  let r := (n <<< 1) ||| 0x01
  (r, szp r (bitGet n 7) f)

def sra (n : UInt8) (f : Flags) : UInt8 × Flags :=
  let r := (n.toInt8 >>> 1).toUInt8
  (r, szp r (bitGet n 0) f)

def srl (n : UInt8) (f : Flags) : UInt8 × Flags :=
  let r := n >>> 1
  (r, szp r (bitGet n 0) f)

/-- `bit`: Z = complement of the tested bit, H set, N reset; everything else kept. -/
def bit (b : UInt8) (v : UInt8) (f : Flags) : Flags :=
  { f with z := !bitGet v b, h := true, n := false }

/-- RLD: returns (new A, new (HL)). -/
def rld (a m : UInt8) (f : Flags) : (UInt8 × UInt8) × Flags :=
  let r : UInt8 := (a &&& (0xF0 : UInt8)) ||| (m >>> 4)
  ((r, (m <<< 4) ||| (a &&& (0x0F : UInt8))),
   { f with s := sign8 r, z := r == 0, h := false, p := parityEven r, n := false })

/-- RRD: returns (new A, new (HL)). -/
def rrd (a m : UInt8) (f : Flags) : (UInt8 × UInt8) × Flags :=
  let r : UInt8 := (a &&& (0xF0 : UInt8)) ||| (m &&& (0x0F : UInt8))
  ((r, ((a &&& (0x0F : UInt8)) <<< 4) ||| (m >>> 4)),
   { f with s := sign8 r, z := r == 0, h := false, p := parityEven r, n := false })

/-- flags of CPI/CPD given A, the byte at (HL) and the *decremented* BC. -/
def cpiFlags (a m : UInt8) (bc' : UInt16) (f : Flags) : Flags :=
  let r := a - m
  { f with s := sign8 r, z := a == m, h := (a &&& 0x0F) < (m &&& 0x0F), p := bc' != 0, n := true }

/-- flags of LDI/LDD given the decremented BC. -/
def ldiFlags (bc' : UInt16) (f : Flags) : Flags :=
  { f with h := false, p := bc' != 0, n := false }

/-- flags of LD A,I / LD A,R. -/
def ldAIFlags (v : UInt8) (iff2 : Bool) (f : Flags) : Flags :=
  { f with s := sign8 v, z := v == 0, h := false, p := iff2, n := false }

end Alu
end Z80
