/-
  Z80.Model.Instr — instruction syntax and the decoder.  The ~1,300 dispatch arms of
  `execute_1byte`, `execute_2bytes`, `execute_4bytes` are modelled the way the Z80 encodes
  them: prefix page + x/y/z fields -> `Instr` with its operand bytes.  `Instr.unknown`
  stands for every encoding the interpreter has no arm for.  Import-free.
-/
import Z80.Model.Basic
namespace Z80

inductive R8 | b | c | d | e | h | l | a | ixh | ixl | iyh | iyl
deriving DecidableEq, Repr, Inhabited

inductive Idx | ix | iy
deriving DecidableEq, Repr, Inhabited

/-- where a memory operand lives. -/
inductive MemRef
  | hl | bc | de
  | idx (i : Idx) (d : UInt8)
  | abs (nn : UInt16)
deriving DecidableEq, Repr, Inhabited

inductive Loc8 | reg (r : R8) | mem (m : MemRef)
deriving DecidableEq, Repr, Inhabited

inductive Op8 | loc (l : Loc8) | imm (n : UInt8)
deriving DecidableEq, Repr, Inhabited

inductive R16 | bc | de | hl | sp | ix | iy | af
deriving DecidableEq, Repr, Inhabited

inductive Cc | nz | z | nc | c | po | pe | p | m
deriving DecidableEq, Repr, Inhabited

inductive AluOp | add | adc | sub | sbc | and | xor | or | cp
deriving DecidableEq, Repr, Inhabited

inductive RotOp | rlc | rrc | rl | rr | sla | sra | sll | srl
deriving DecidableEq, Repr, Inhabited

inductive Instr
  | nop | halt | di | ei | im (m : UInt8)
  | ld8 (dst : Loc8) (src : Op8)
  | ldAI | ldAR | ldIA | ldRA
  | ld16 (dst : R16) (nn : UInt16)        -- LD dd,nn
  | ld16m (dst : R16) (nn : UInt16)       -- LD dd,(nn)
  | st16m (nn : UInt16) (src : R16)       -- LD (nn),dd
  | ldSP (src : R16)
  | push (r : R16) | pop (r : R16)
  | exDEHL | exAF | exx | exSP (r : R16)
  | ldi | ldd | ldir | lddr | cpi | cpd | cpir | cpdr
  | alu (op : AluOp) (src : Op8)
  | inc8 (l : Loc8) | dec8 (l : Loc8)
  | daa | cpl | neg | ccf | scf
  | add16 (dst : R16) (src : R16) | adc16 (src : R16) | sbc16 (src : R16)
  | inc16 (r : R16) | dec16 (r : R16)
  | rlca | rla | rrca | rra
  | rot (op : RotOp) (l : Loc8)
  | rld | rrd
  | bit (b : UInt8) (l : Loc8) | set (b : UInt8) (l : Loc8) | res (b : UInt8) (l : Loc8)
  | jp (nn : UInt16) | jpcc (cc : Cc) (nn : UInt16)
  | jr (e : UInt8) | jrcc (cc : Cc) (e : UInt8)
  | jpR (r : R16) | djnz (e : UInt8)
  | call (nn : UInt16) | callcc (cc : Cc) (nn : UInt16)
  | ret | retcc (cc : Cc) | reti | retn
  | rst (v : UInt16)
  | unknown
deriving DecidableEq, Repr, Inhabited

/-- which dispatcher handled the encoding (decides the diagnostic format and the table). -/
inductive Page | base | cb | ed | dd | fd | ddcb | fdcb
deriving DecidableEq, Repr, Inhabited

structure Decoded where
  instr : Instr
  len : UInt16          -- encoded length = PC advance when control is not transferred
  page : Page
  op : UInt8            -- the byte that selects the row on that page
deriving DecidableEq, Repr, Inhabited

/-! ### field tables -/

def ccOf (y : UInt8) : Cc :=
  match y with
  | 0 => .nz | 1 => .z | 2 => .nc | 3 => .c | 4 => .po | 5 => .pe | 6 => .p | _ => .m

def aluOf (y : UInt8) : AluOp :=
  match y with
  | 0 => .add | 1 => .adc | 2 => .sub | 3 => .sbc | 4 => .and | 5 => .xor | 6 => .or | _ => .cp

def rotOf (y : UInt8) : RotOp :=
  match y with
  | 0 => .rlc | 1 => .rrc | 2 => .rl | 3 => .rr | 4 => .sla | 5 => .sra | 6 => .sll | _ => .srl

/-- `r[z]` of the base page: B C D E H L (HL) A. -/
def locOf (z : UInt8) : Loc8 :=
  match z with
  | 0 => .reg .b | 1 => .reg .c | 2 => .reg .d | 3 => .reg .e
  | 4 => .reg .h | 5 => .reg .l | 6 => .mem .hl | _ => .reg .a

def idxH : Idx → R8 | .ix => .ixh | .iy => .iyh
def idxL : Idx → R8 | .ix => .ixl | .iy => .iyl
def idxR : Idx → R16 | .ix => .ix | .iy => .iy

/-- `r[z]` on the DD/FD page for the register-only (undocumented) forms: H, L -> IXH, IXL. -/
def locOfX (i : Idx) (z : UInt8) : Loc8 :=
  match z with
  | 4 => .reg (idxH i) | 5 => .reg (idxL i) | z => locOf z

def rpOf (p : UInt8) : R16 :=
  match p with | 0 => .bc | 1 => .de | 2 => .hl | _ => .sp

def rp2Of (p : UInt8) : R16 :=
  match p with | 0 => .bc | 1 => .de | 2 => .hl | _ => .af

def rpOfX (i : Idx) (p : UInt8) : R16 :=
  match p with | 0 => .bc | 1 => .de | 2 => idxR i | _ => .sp

/-! ### base page -/

/-- Decode with first byte `op`; operand bytes are `b1` (at pc+1) and `b2` (at pc+2). -/
def decodeBase (op b1 b2 : UInt8) : Instr × UInt16 :=
  let x := op >>> 6
  let y := (op >>> 3) &&& 7
  let z := op &&& 7
  let p := y >>> 1
  let q := y &&& 1
  let nn := mkWord b2 b1
  match x with
  | 0 =>
    match z with
    | 0 =>
      match y with
      | 0 => (.nop, 1) | 1 => (.exAF, 1) | 2 => (.djnz b1, 2) | 3 => (.jr b1, 2)
      | y => (.jrcc (ccOf (y - 4)) b1, 2)
    | 1 => if q == 0 then (.ld16 (rpOf p) nn, 3) else (.add16 .hl (rpOf p), 1)
    | 2 =>
      match y with
      | 0 => (.ld8 (.mem .bc) (.loc (.reg .a)), 1)
      | 1 => (.ld8 (.reg .a) (.loc (.mem .bc)), 1)
      | 2 => (.ld8 (.mem .de) (.loc (.reg .a)), 1)
      | 3 => (.ld8 (.reg .a) (.loc (.mem .de)), 1)
      | 4 => (.st16m nn .hl, 3)
      | 5 => (.ld16m .hl nn, 3)
      | 6 => (.ld8 (.mem (.abs nn)) (.loc (.reg .a)), 3)
      | _ => (.ld8 (.reg .a) (.loc (.mem (.abs nn))), 3)
    | 3 => if q == 0 then (.inc16 (rpOf p), 1) else (.dec16 (rpOf p), 1)
    | 4 => (.inc8 (locOf y), 1)
    | 5 => (.dec8 (locOf y), 1)
    | 6 => (.ld8 (locOf y) (.imm b1), 2)
    | _ =>
      match y with
      | 0 => (.rlca, 1) | 1 => (.rrca, 1) | 2 => (.rla, 1) | 3 => (.rra, 1)
      | 4 => (.daa, 1) | 5 => (.cpl, 1) | 6 => (.scf, 1) | _ => (.ccf, 1)
  | 1 => if op == 0x76 then (.halt, 1) else (.ld8 (locOf y) (.loc (locOf z)), 1)
  | 2 => (.alu (aluOf y) (.loc (locOf z)), 1)
  | _ =>
    match z with
    | 0 => (.retcc (ccOf y), 1)
    | 1 =>
      if q == 0 then (.pop (rp2Of p), 1) else
      match p with
      | 0 => (.ret, 1) | 1 => (.exx, 1) | 2 => (.jpR .hl, 1) | _ => (.ldSP .hl, 1)
    | 2 => (.jpcc (ccOf y) nn, 3)
    | 3 =>
      match y with
      | 0 => (.jp nn, 3)
      | 1 => (.unknown, 1)            -- CB prefix: routed before this decoder is consulted
      | 2 => (.unknown, 2)            -- OUT (n),A : not implemented
      | 3 => (.unknown, 2)            -- IN A,(n)  : not implemented
      | 4 => (.exSP .hl, 1) | 5 => (.exDEHL, 1) | 6 => (.di, 1) | _ => (.ei, 1)
    | 4 => (.callcc (ccOf y) nn, 3)
    | 5 =>
      if q == 0 then (.push (rp2Of p), 1) else
      match p with
      | 0 => (.call nn, 3)
      | _ => (.unknown, 1)            -- DD / ED / FD prefixes: routed before
    | 6 => (.alu (aluOf y) (.imm b1), 2)
    | _ => (.rst (y.toUInt16 <<< 3), 1)

/-! ### CB page -/

def decodeCB (op : UInt8) : Instr × UInt16 :=
  let x := op >>> 6
  let y := (op >>> 3) &&& 7
  let l := locOf (op &&& 7)
  match x with
  | 0 => (.rot (rotOf y) l, 2)
  | 1 => (.bit y l, 2)
  | 2 => (.res y l, 2)
  | _ => (.set y l, 2)

/-! ### ED page -/

def decodeED (op b2 b3 : UInt8) : Instr × UInt16 :=
  let nn := mkWord b3 b2
  let p := (op >>> 4) &&& 3
  match op with
  | 0x57 => (.ldAI, 2) | 0x5F => (.ldAR, 2) | 0x47 => (.ldIA, 2) | 0x4F => (.ldRA, 2)
  | 0x4B | 0x5B | 0x6B | 0x7B => (.ld16m (rpOf p) nn, 4)
  | 0x43 | 0x53 | 0x63 | 0x73 => (.st16m nn (rpOf p), 4)
  | 0xA0 => (.ldi, 2) | 0xB0 => (.ldir, 2) | 0xA8 => (.ldd, 2) | 0xB8 => (.lddr, 2)
  | 0xA1 => (.cpi, 2) | 0xB1 => (.cpir, 2) | 0xA9 => (.cpd, 2) | 0xB9 => (.cpdr, 2)
  | 0x44 => (.neg, 2) | 0x4D => (.reti, 2) | 0x45 => (.retn, 2)
  | 0x46 => (.im 0, 2) | 0x56 => (.im 1, 2) | 0x5E => (.im 2, 2)
  | 0x4A | 0x5A | 0x6A | 0x7A => (.adc16 (rpOf p), 2)
  | 0x42 | 0x52 | 0x62 | 0x72 => (.sbc16 (rpOf p), 2)
  | 0x6F => (.rld, 2) | 0x67 => (.rrd, 2)
  | _ => (.unknown, 2)

/-! ### DD / FD page -/

/-- `b2`, `b3` are the bytes at pc+2, pc+3. -/
def decodeIdx (i : Idx) (op b2 b3 : UInt8) : Instr × UInt16 :=
  let x := op >>> 6
  let y := (op >>> 3) &&& 7
  let z := op &&& 7
  let p := y >>> 1
  let nn := mkWord b3 b2
  let m : Loc8 := .mem (.idx i b2)
  match x with
  | 0 =>
    match op with
    | 0x09 | 0x19 | 0x29 | 0x39 => (.add16 (idxR i) (rpOfX i p), 2)
    | 0x21 => (.ld16 (idxR i) nn, 4)
    | 0x22 => (.st16m nn (idxR i), 4)
    | 0x2A => (.ld16m (idxR i) nn, 4)
    | 0x23 => (.inc16 (idxR i), 2)
    | 0x2B => (.dec16 (idxR i), 2)
    | 0x34 => (.inc8 m, 3)
    | 0x35 => (.dec8 m, 3)
    | 0x36 => (.ld8 m (.imm b3), 4)
    | 0x26 => (.ld8 (.reg (idxH i)) (.imm b2), 3)
    | 0x2E => (.ld8 (.reg (idxL i)) (.imm b2), 3)
    | 0x24 => if i == .ix then (.inc8 (.reg .ixh), 2) else (.unknown, 2)
    | 0x25 => if i == .ix then (.dec8 (.reg .ixh), 2) else (.unknown, 2)
    | 0x2C => if i == .ix then (.inc8 (.reg .ixl), 2) else (.unknown, 2)
    | 0x2D => if i == .ix then (.dec8 (.reg .ixl), 2) else (.unknown, 2)
    | _ => (.unknown, 2)
  | 1 =>
    if op == 0x76 then (.unknown, 2)
    else if z == 6 then (.ld8 (locOf y) (.loc m), 3)           -- LD r,(IX+d): real H/L
    else if y == 6 then (.ld8 m (.loc (locOf z)), 3)           -- LD (IX+d),r: real H/L
    else (.ld8 (locOfX i y) (.loc (locOfX i z)), 2)
  | 2 =>
    if z == 6 then (.alu (aluOf y) (.loc m), 3)
    else if z == 4 || z == 5 then (.alu (aluOf y) (.loc (locOfX i z)), 2)
    else (.unknown, 2)
  | _ =>
    match op with
    | 0xE1 => (.pop (idxR i), 2)
    | 0xE3 => (.exSP (idxR i), 2)
    | 0xE5 => (.push (idxR i), 2)
    | 0xE9 => (.jpR (idxR i), 2)
    | 0xF9 => (.ldSP (idxR i), 2)
    | _ => (.unknown, 2)

/-! ### DDCB / FDCB page: `d` is the byte at pc+2, `op` the byte at pc+3 -/

def decodeIdxCB (i : Idx) (d op : UInt8) : Instr × UInt16 :=
  let x := op >>> 6
  let y := (op >>> 3) &&& 7
  let m : Loc8 := .mem (.idx i d)
  if (op &&& 7) != 6 then (.unknown, 4) else
  match x with
  | 0 => (.rot (rotOf y) m, 4)
  | 1 => (.bit y m, 4)
  | 2 => (.res y m, 4)
  | _ => (.set y m, 4)

@[inline] def isPrefix (op : UInt8) : Bool := op == 0xCB || op == 0xDD || op == 0xED || op == 0xFD

/-- The decoder of `execute`: `first` is the selected opcode (memory byte at pc, or the byte
    supplied with an accepted mode-0/1 interrupt); everything else is read from memory. -/
def decode (bus : Bus) (pc : UInt16) (first : UInt8) : Decoded :=
  let b1 := bus.readByte (pc + 1)
  let b2 := bus.readByte (pc + 2)
  let b3 := bus.readByte (pc + 3)
  if isPrefix first then
    -- `execute_2bytes` re-reads the prefix from memory
    let b0 := bus.readByte pc
    match b0 with
    | 0xCB => let r := decodeCB b1; ⟨r.1, r.2, .cb, b1⟩
    | 0xED => let r := decodeED b1 b2 b3; ⟨r.1, r.2, .ed, b1⟩
    | 0xDD =>
      if b1 == 0xCB then let r := decodeIdxCB .ix b2 b3; ⟨r.1, r.2, .ddcb, b3⟩
      else let r := decodeIdx .ix b1 b2 b3; ⟨r.1, r.2, .dd, b1⟩
    | 0xFD =>
      if b1 == 0xCB then let r := decodeIdxCB .iy b2 b3; ⟨r.1, r.2, .fdcb, b3⟩
      else let r := decodeIdx .iy b1 b2 b3; ⟨r.1, r.2, .fd, b1⟩
    | _ => ⟨.unknown, 2, .cb, b1⟩   -- only reachable when an interrupt supplies a prefix byte
  else
    let r := decodeBase first b1 b2
    ⟨r.1, r.2, .base, first⟩

end Z80
