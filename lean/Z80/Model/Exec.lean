/-
  Z80.Model.Exec — architectural state and the effect of every `Instr`, calling the
  layer-1 helpers (Alu, Bus, Regs) exactly where the Rust arms call them.  Import-free.
-/
import Z80.Model.Alu
import Z80.Model.Instr
namespace Z80

/-- Everything `execute` reads or writes apart from the diagnostics and the slice counters. -/
structure Arch where
  reg : Regs := {}
  alt : Regs := {}
  bus : Bus
  halt : Bool := false
  int : Option UInt8 := none
  nmi : Bool := false
  im : UInt8 := 0
  iff1 : Bool := false
  iff2 : Bool := false
deriving DecidableEq, Repr, Inhabited

namespace Regs
def get8 (r : Regs) : R8 → UInt8
  | .b => r.b | .c => r.c | .d => r.d | .e => r.e | .h => r.h | .l => r.l | .a => r.a
  | .ixh => r.ixh | .ixl => r.ixl | .iyh => r.iyh | .iyl => r.iyl
def set8 (r : Regs) (x : R8) (v : UInt8) : Regs :=
  match x with
  | .b => { r with b := v } | .c => { r with c := v } | .d => { r with d := v }
  | .e => { r with e := v } | .h => { r with h := v } | .l => { r with l := v }
  | .a => { r with a := v } | .ixh => { r with ixh := v } | .ixl => { r with ixl := v }
  | .iyh => { r with iyh := v } | .iyl => { r with iyl := v }
def get16 (r : Regs) : R16 → UInt16
  | .bc => r.getBC | .de => r.getDE | .hl => r.getHL | .sp => r.sp
  | .ix => r.getIX | .iy => r.getIY | .af => r.getAF
def set16 (r : Regs) (x : R16) (v : UInt16) : Regs :=
  match x with
  | .bc => r.setBC v | .de => r.setDE v | .hl => r.setHL v | .sp => { r with sp := v }
  | .ix => r.setIX v | .iy => r.setIY v | .af => r.setAF v
end Regs

/-- `signed_to_abs` -/
@[inline] def signedToAbs (n : UInt8) : UInt8 := ~~~n + 1

/-- the code's two-branch displacement: `base - |d|` when bit 7 of `d` is set, else `base + d`. -/
@[inline] def displace (base : UInt16) (d : UInt8) : UInt16 :=
  if bitGet d 7 then base - (signedToAbs d).toUInt16 else base + d.toUInt16

def condHolds (f : Flags) : Cc → Bool
  | .nz => !f.z | .z => f.z | .nc => !f.c | .c => f.c
  | .po => !f.p | .pe => f.p | .p => !f.s | .m => f.s

namespace Arch

@[inline] def setPC (a : Arch) (pc : UInt16) : Arch := { a with reg := { a.reg with pc := pc } }
@[inline] def setFlags (a : Arch) (f : Flags) : Arch := { a with reg := { a.reg with flags := f } }
@[inline] def setA (a : Arch) (v : UInt8) : Arch := { a with reg := { a.reg with a := v } }

def addrOf (a : Arch) : MemRef → UInt16
  | .hl => a.reg.getHL | .bc => a.reg.getBC | .de => a.reg.getDE
  | .idx .ix d => displace a.reg.getIX d
  | .idx .iy d => displace a.reg.getIY d
  | .abs nn => nn

def read8 (a : Arch) : Loc8 → UInt8
  | .reg r => a.reg.get8 r
  | .mem m => a.bus.readByte (a.addrOf m)

def write8 (a : Arch) (l : Loc8) (v : UInt8) : Arch :=
  match l with
  | .reg r => { a with reg := a.reg.set8 r v }
  | .mem m => { a with bus := a.bus.writeByte (a.addrOf m) v }

/- compiler-only replacement (`@[csimp]`, kernel-checked equal to the definition above): takes the owner of the
   memory array apart first, so that the array is updated in place instead of being copied -/
def write8Fast (a : Arch) (l : Loc8) (v : UInt8) : Arch :=
  match l with
  | .reg r => { a with reg := a.reg.set8 r v }
  | .mem m =>
    let addr := a.addrOf m
    match a with
    | ⟨reg, alt, bus, halt, int, nmi, im, iff1, iff2⟩ => ⟨reg, alt, bus.writeByte addr v, halt, int, nmi, im, iff1, iff2⟩

@[csimp] theorem write8_eq_fast : @write8 = @write8Fast := by
  funext a l v; cases l <;> rfl


def readOp (a : Arch) : Op8 → UInt8
  | .loc l => a.read8 l
  | .imm n => n

/-- push a word: SP := SP-2, low byte at SP, high byte at SP+1. -/
def pushWord (a : Arch) (w : UInt16) : Arch :=
  let sp := a.reg.sp - 2
  { a with reg := { a.reg with sp := sp }, bus := a.bus.writeWord sp w }

/- compiler-only replacement (`@[csimp]`, kernel-checked equal to the definition above): takes the owner of the
   memory array apart first, so that the array is updated in place instead of being copied -/
def pushWordFast (a : Arch) (w : UInt16) : Arch :=
  match a with
  | ⟨reg, alt, bus, halt, int, nmi, im, iff1, iff2⟩ =>
    ⟨{ reg with sp := reg.sp - 2 }, alt, bus.writeWord (reg.sp - 2) w, halt, int, nmi, im, iff1, iff2⟩

@[csimp] theorem pushWord_eq_fast : @pushWord = @pushWordFast := by
  funext a w; rfl


/-- pop a word: (word at SP, SP := SP+2). -/
def popWord (a : Arch) : UInt16 × Arch :=
  (a.bus.readWord a.reg.sp, { a with reg := { a.reg with sp := a.reg.sp + 2 } })

end Arch

def aluApply (op : AluOp) (a n : UInt8) (f : Flags) : UInt8 × Flags :=
  match op with
  | .add => Alu.add a n f | .adc => Alu.adc a n f | .sub => Alu.sub a n f | .sbc => Alu.sbc a n f
  | .and => Alu.and a n f | .xor => Alu.xor a n f | .or => Alu.or a n f | .cp => Alu.cp a n f

def rotApply (op : RotOp) (n : UInt8) (f : Flags) : UInt8 × Flags :=
  match op with
  | .rlc => Alu.rlc n f | .rrc => Alu.rrc n f | .rl => Alu.rl n f | .rr => Alu.rr n f
  | .sla => Alu.sla n f | .sra => Alu.sra n f | .sll => Alu.sll n f | .srl => Alu.srl n f

/-! ### block transfer / search single steps (`ldi`, `ldd`, `cpi`, `cpd` + the flag tail of the arm) -/

def ldStep (up : Bool) (a : Arch) : Arch :=
  let bc := a.reg.getBC
  let de := a.reg.getDE
  let hl := a.reg.getHL
  let bus := a.bus.writeByte de (a.bus.readByte hl)
  let de' := if up then de + 1 else de - 1
  let hl' := if up then hl + 1 else hl - 1
  let bc' := bc - 1
  let reg := ((a.reg.setDE de').setHL hl').setBC bc'
  { a with bus := bus, reg := { reg with flags := Alu.ldiFlags bc' reg.flags } }

/- compiler-only replacement (`@[csimp]`, kernel-checked equal to the definition above): takes the owner of the
   memory array apart first, so that the array is updated in place instead of being copied -/
def ldStepFast (up : Bool) (a : Arch) : Arch :=
  let bc := a.reg.getBC
  let de := a.reg.getDE
  let hl := a.reg.getHL
  let v := a.bus.readByte hl
  let de' := if up then de + 1 else de - 1
  let hl' := if up then hl + 1 else hl - 1
  let bc' := bc - 1
  let reg := ((a.reg.setDE de').setHL hl').setBC bc'
  match a with
  | ⟨_, alt, bus, halt, int, nmi, im, iff1, iff2⟩ =>
    ⟨{ reg with flags := Alu.ldiFlags bc' reg.flags }, alt, bus.writeByte de v, halt, int, nmi, im, iff1, iff2⟩

@[csimp] theorem ldStep_eq_fast : @ldStep = @ldStepFast := by
  funext up a; rfl


def cpStep (up : Bool) (a : Arch) : Arch :=
  let bc := a.reg.getBC
  let hl := a.reg.getHL
  let m := a.bus.readByte hl
  let hl' := if up then hl + 1 else hl - 1
  let bc' := bc - 1
  let reg := (a.reg.setHL hl').setBC bc'
  { a with reg := { reg with flags := Alu.cpiFlags a.reg.a m bc' reg.flags } }

/-- LDIR / LDDR: do the single step, repeat while BC != 0 (BC = 0 on entry: 65,536 rounds).
    The loop is written with fuel; 65,536 is always enough (`Z80.ldLoop_fuel`, Lemmas). -/
def ldLoop (up : Bool) : Nat → Arch → Arch
  | 0, a => a
  | fuel + 1, a =>
    let a' := ldStep up a
    if a'.reg.getBC == 0 then a' else ldLoop up fuel a'

def ldRepeat (up : Bool) (a : Arch) : Arch := ldLoop up 65536 a

/-- CPIR / CPDR: do the single step, stop on a match or when BC reaches 0. -/
def cpLoop (up : Bool) : Nat → Arch → Arch
  | 0, a => a
  | fuel + 1, a =>
    let a' := cpStep up a
    if a'.reg.getBC == 0 || a'.reg.flags.z then a' else cpLoop up fuel a'

def cpRepeat (up : Bool) (a : Arch) : Arch := cpLoop up 65536 a

/-- Is the conditional part of the instruction taken (decides the extra T-states)? -/
def taken (i : Instr) (a : Arch) : Bool :=
  match i with
  | .jrcc cc _ | .callcc cc _ | .retcc cc | .jpcc cc _ => condHolds a.reg.flags cc
  | .djnz _ => a.reg.b - 1 != 0
  | _ => true

/-- relative jump target from the address of the instruction: `pc + 2 + sext e`, in the code's form. -/
@[inline] def relTarget (pc : UInt16) (e : UInt8) : UInt16 :=
  if bitGet e 7 then pc + 2 - (signedToAbs e).toUInt16 else pc + e.toUInt16 + 2

/-- The effect of one decoded instruction.  `len` is the encoded length: the return address of
    CALL/RST is `pc + len` (`len = 0` when an RST is the response to an accepted interrupt). -/
def exec (i : Instr) (len : UInt16) (a : Arch) : Arch :=
  let pc := a.reg.pc
  let next := pc + len
  let f := a.reg.flags
  match i with
  | .nop => a.setPC next
  | .halt => { a with halt := true }
  | .di => { a.setPC next with iff1 := false, iff2 := false }
  | .ei => { a.setPC next with iff1 := true, iff2 := true }
  | .im m => { a.setPC next with im := m }
  | .ld8 dst src => (a.write8 dst (a.readOp src)).setPC next
  | .ldAI => ((a.setA a.reg.i).setFlags (Alu.ldAIFlags a.reg.i a.iff2 f)).setPC next
  | .ldAR => ((a.setA a.reg.r).setFlags (Alu.ldAIFlags a.reg.r a.iff2 f)).setPC next
  | .ldIA => { a with reg := { a.reg with i := a.reg.a, pc := next } }
  | .ldRA => { a with reg := { a.reg with r := a.reg.a, pc := next } }
  | .ld16 dst nn => { a with reg := { a.reg.set16 dst nn with pc := next } }
  | .ld16m dst nn => { a with reg := { a.reg.set16 dst (a.bus.readWord nn) with pc := next } }
  | .st16m nn src => { a.setPC next with bus := a.bus.writeWord nn (a.reg.get16 src) }
  | .ldSP src => { a with reg := { a.reg with sp := a.reg.get16 src, pc := next } }
  | .push r => (a.pushWord (a.reg.get16 r)).setPC next
  | .pop r =>
    let (w, a1) := a.popWord
    { a1 with reg := { a1.reg.set16 r w with pc := next } }
  | .exDEHL =>
    let de := a.reg.getDE
    let hl := a.reg.getHL
    { a with reg := { (a.reg.setDE hl).setHL de with pc := next } }
  | .exAF =>
    let af := a.reg.getAF
    let afp := a.alt.getAF
    { a with reg := { a.reg.setAF afp with pc := next }, alt := a.alt.setAF af }
  | .exx =>
    let r := a.reg
    let t := a.alt
    { a with reg := { ((r.setBC t.getBC).setDE t.getDE).setHL t.getHL with pc := next },
             alt := ((t.setBC r.getBC).setDE r.getDE).setHL r.getHL }
  | .exSP r =>
    let w := a.bus.readWord a.reg.sp
    { a with bus := a.bus.writeWord a.reg.sp (a.reg.get16 r),
             reg := { a.reg.set16 r w with pc := next } }
  | .ldi => (ldStep true a).setPC next
  | .ldd => (ldStep false a).setPC next
  | .ldir => (ldRepeat true a).setPC next
  | .lddr => (ldRepeat false a).setPC next
  | .cpi => (cpStep true a).setPC next
  | .cpd => (cpStep false a).setPC next
  | .cpir => (cpRepeat true a).setPC next
  | .cpdr => (cpRepeat false a).setPC next
  | .alu op src =>
    let (r, f') := aluApply op a.reg.a (a.readOp src) f
    { a with reg := { a.reg with a := r, flags := f', pc := next } }
  | .inc8 l =>
    let (r, f') := Alu.inc (a.read8 l) f
    ((a.setFlags f').write8 l r).setPC next
  | .dec8 l =>
    let (r, f') := Alu.dec (a.read8 l) f
    ((a.setFlags f').write8 l r).setPC next
  | .daa =>
    let (r, f') := Alu.daa a.reg.a f
    { a with reg := { a.reg with a := r, flags := f', pc := next } }
  | .cpl => { a with reg := { a.reg with a := ~~~a.reg.a, flags := { f with h := true, n := true }, pc := next } }
  | .neg =>
    let (r, f') := Alu.neg a.reg.a f
    { a with reg := { a.reg with a := r, flags := f', pc := next } }
  | .ccf => { a with reg := { a.reg with flags := { f with h := f.c, c := !f.c, n := false }, pc := next } }
  | .scf => { a with reg := { a.reg with flags := { f with c := true, h := false, n := false }, pc := next } }
  | .add16 dst src =>
    let (r, f') := Alu.add16 (a.reg.get16 dst) (a.reg.get16 src) f
    { a with reg := { (a.reg.set16 dst r) with flags := f', pc := next } }
  | .adc16 src =>
    let (r, f') := Alu.adc16 a.reg.getHL (a.reg.get16 src) f
    { a with reg := { (a.reg.setHL r) with flags := f', pc := next } }
  | .sbc16 src =>
    let (r, f') := Alu.sbc16 a.reg.getHL (a.reg.get16 src) f
    { a with reg := { (a.reg.setHL r) with flags := f', pc := next } }
  | .inc16 r => { a with reg := { a.reg.set16 r (a.reg.get16 r + 1) with pc := next } }
  | .dec16 r => { a with reg := { a.reg.set16 r (a.reg.get16 r - 1) with pc := next } }
  | .rlca => let (r, f') := Alu.rlca a.reg.a f; { a with reg := { a.reg with a := r, flags := f', pc := next } }
  | .rla => let (r, f') := Alu.rla a.reg.a f; { a with reg := { a.reg with a := r, flags := f', pc := next } }
  | .rrca => let (r, f') := Alu.rrca a.reg.a f; { a with reg := { a.reg with a := r, flags := f', pc := next } }
  | .rra => let (r, f') := Alu.rra a.reg.a f; { a with reg := { a.reg with a := r, flags := f', pc := next } }
  | .rot op l =>
    let (r, f') := rotApply op (a.read8 l) f
    ((a.setFlags f').write8 l r).setPC next
  | .rld =>
    let hl := a.reg.getHL
    let ((r, m), f') := Alu.rld a.reg.a (a.bus.readByte hl) f
    { a with reg := { a.reg with a := r, flags := f', pc := next }, bus := a.bus.writeByte hl m }
  | .rrd =>
    let hl := a.reg.getHL
    let ((r, m), f') := Alu.rrd a.reg.a (a.bus.readByte hl) f
    { a with reg := { a.reg with a := r, flags := f', pc := next }, bus := a.bus.writeByte hl m }
  | .bit b l => (a.setFlags (Alu.bit b (a.read8 l) f)).setPC next
  | .set b l => (a.write8 l (bitSet (a.read8 l) b)).setPC next
  | .res b l => (a.write8 l (bitReset (a.read8 l) b)).setPC next
  | .jp nn => a.setPC nn
  | .jpcc cc nn => if condHolds f cc then a.setPC nn else a.setPC next
  | .jr e => a.setPC (relTarget pc e)
  | .jrcc cc e => if condHolds f cc then a.setPC (relTarget pc e) else a.setPC next
  | .jpR r => a.setPC (a.reg.get16 r)
  | .djnz e =>
    let b := a.reg.b - 1
    let a1 := { a with reg := { a.reg with b := b } }
    if b != 0 then a1.setPC (relTarget pc e) else a1.setPC next
  | .call nn => (a.pushWord next).setPC nn
  | .callcc cc nn => if condHolds f cc then (a.pushWord next).setPC nn else a.setPC next
  | .ret => let (w, a1) := a.popWord; a1.setPC w
  | .retcc cc => if condHolds f cc then (let (w, a1) := a.popWord; a1.setPC w) else a.setPC next
  | .reti => let (w, a1) := a.popWord; a1.setPC w
  | .retn => let (w, a1) := a.popWord; { a1.setPC w with iff1 := a.iff2 }
  | .rst v => (a.pushWord next).setPC v
  | .unknown => a.setPC next

end Z80
