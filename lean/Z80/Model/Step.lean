/-
  Z80.Model.Step — `CPU::execute`, `execute_timed`, the request latches and the diagnostic
  string, transcribed statement by statement from src/cpu.rs l.600-677.  Import-free.
-/
import Z80.Model.Exec
import Z80.Model.Tables
import Z80.Spec.Budget
namespace Z80

structure Debug where
  unknw : Bool := false     -- `unknw_instr`
  opcode : Bool := false
  io : Bool := false
  instrIn : Bool := false
  str : String := ""
deriving DecidableEq, Repr, Inhabited

structure Slice where
  duration : UInt32 := 16
  max : UInt32 := 35000
  cur : UInt32 := 0
deriving DecidableEq, Repr, Inhabited

structure Cpu where
  arch : Arch
  debug : Debug := {}
  slice : Slice := {}
deriving DecidableEq, Repr, Inhabited

def Cpu.new (size : UInt16) : Cpu := { arch := { bus := Bus.new size } }

/-! ### hexadecimal rendering (`{:02X}` etc.) -/

def hexDigit (n : UInt8) : Char :=
  if n < 10 then Char.ofNat (48 + n.toNat) else Char.ofNat (55 + n.toNat)

def hex2 (b : UInt8) : String := String.ofList [hexDigit (b >>> 4), hexDigit (b &&& 0x0F)]
def hex4 (w : UInt16) : String := hex2 (w >>> 8).toUInt8 ++ hex2 (w &&& 0xFF).toUInt8

/-! ### T-states -/

def tableCycles (d : Decoded) : UInt32 :=
  match d.page with
  | .base => (cyclesBase.getD d.op.toNat 0).toUInt32
  | .cb => (cyclesCB.getD d.op.toNat 0).toUInt32
  | .ed => (cyclesED.getD d.op.toNat 0).toUInt32
  | .dd | .fd => (cyclesIdx.getD d.op.toNat 0).toUInt32
  | .ddcb | .fdcb => match d.instr with | .bit _ _ => 20 | _ => 23

/-- the conditional increments of the JR cc / DJNZ / CALL cc / RET cc arms. -/
def extraCycles (i : Instr) (t : Bool) : UInt32 :=
  match i with
  | .jrcc _ _ => if t then 12 else 7
  | .djnz _ => if t then 13 else 8
  | .callcc _ _ => if t then 7 else 0
  | .retcc _ => if t then 6 else 0
  | _ => 0

def instrCycles (d : Decoded) (a : Arch) : UInt32 :=
  if d.instr = .unknown then 0xFF else tableCycles d + extraCycles d.instr (taken d.instr a)

/-! ### the step -/

/-- what the step reports to the diagnostics: the dispatcher that ran and the opcode text. -/
structure StepInfo where
  page : Page
  unknown : Bool
  text : String
  d : Decoded          -- what was decoded (for reporting; not used by the diagnostics)
  tk : Bool            -- conditional part taken?
deriving DecidableEq, Repr, Inhabited

def opcodeText (bus : Bus) (pc : UInt16) (d : Decoded) : String :=
  match d.page with
  | .base => "0x" ++ hex2 d.op
  | .cb | .ed | .dd | .fd => "0x" ++ hex2 (bus.readByte pc) ++ hex2 (bus.readByte (pc + 1))
  | .ddcb | .fdcb =>
    "0x" ++ hex2 (bus.readByte pc) ++ hex2 (bus.readByte (pc + 1)) ++
    hex2 (bus.readByte (pc + 2)) ++ hex2 (bus.readByte (pc + 3))

/-- Will the step accept an interrupt (which ends a halt)? -/
@[inline] def Arch.wakes (a : Arch) : Bool := a.nmi || (a.iff1 && a.int.isSome)

/-- NMI acceptance: IFF2 := IFF1, IFF1 := 0, push PC, PC := 0x0066, latch cleared. -/
def acceptNmi (a : Arch) : Arch :=
  { (a.pushWord a.reg.pc).setPC 0x0066 with iff2 := a.iff1, iff1 := false, nmi := false }

/-- Maskable acceptance bookkeeping: disable further maskable interrupts; mode 1 substitutes RST 38;
    mode 2 pushes PC, loads PC from the table entry at I*256+byte and clears the latch. -/
def acceptInt (a : Arch) (b : UInt8) : Arch :=
  if a.im == 1 then { a with iff1 := false, iff2 := false, int := some 0xFF }
  else if a.im == 2 then
    { (({ a with iff1 := false, iff2 := false } : Arch).pushWord a.reg.pc).setPC
        ((({ a with iff1 := false, iff2 := false } : Arch).pushWord a.reg.pc).bus.readWord (mkWord a.reg.i b))
      with int := none }
  else { a with iff1 := false, iff2 := false }

/-- the encoded length handed to `exec`: an RST that answers an accepted interrupt returns to the
    interrupted PC itself. -/
def effLen (d : Decoded) (int : Option UInt8) : UInt16 :=
  match d.instr, int with
  | .rst _, some _ => 0
  | _, _ => d.len

/-- the opcode byte the dispatcher starts from: the latch (accepted mode-0/1 request) or memory. -/
def firstByte (a : Arch) : UInt8 :=
  match a.int with | none => a.bus.readByte a.reg.pc | some o => o

/-- Fetch, decode and execute at PC; `a.int` (if still set) supplies the opcode. -/
def dispatch (a : Arch) : Arch × UInt32 × StepInfo :=
  ({ exec (decode a.bus a.reg.pc (firstByte a)).instr (effLen (decode a.bus a.reg.pc (firstByte a)) a.int) a with int := none },
   instrCycles (decode a.bus a.reg.pc (firstByte a)) a,
   ⟨(decode a.bus a.reg.pc (firstByte a)).page, (decode a.bus a.reg.pc (firstByte a)).instr = .unknown,
    opcodeText a.bus a.reg.pc (decode a.bus a.reg.pc (firstByte a)), decode a.bus a.reg.pc (firstByte a),
    taken (decode a.bus a.reg.pc (firstByte a)).instr a⟩)

/- compiler-only replacement (`@[csimp]`, kernel-checked equal to the definition above): takes the owner of the
   memory array apart first, so that the array is updated in place instead of being copied -/
/-- everything the step reports that only reads the state, computed before `exec` takes the state over -/
@[noinline] def preInfo (a : Arch) : Decoded × UInt32 × StepInfo × UInt16 :=
  let d := decode a.bus a.reg.pc (firstByte a)
  (d, instrCycles d a, ⟨d.page, d.instr = .unknown, opcodeText a.bus a.reg.pc d, d, taken d.instr a⟩, effLen d a.int)

def dispatchFast (a : Arch) : Arch × UInt32 × StepInfo :=
  match preInfo a with
  | (d, cyc, info, len) => ({ exec d.instr len a with int := none }, cyc, info)

@[csimp] theorem dispatch_eq_fast : @dispatch = @dispatchFast := by
  funext a; rfl

/-- an accepted interrupt ends the halt; execution resumes after the HALT -/
def wake (a : Arch) : Arch := if a.halt then { a.setPC (a.reg.pc + 1) with halt := false } else a

def takeNmi (a : Arch) : Arch := if a.nmi then acceptNmi a else a

/-- a masked request is not seen by the instruction -/
def takeInt (a : Arch) : Arch :=
  match a.iff1, a.int with
  | true, some b => acceptInt a b
  | _, _ => { a with int := none }

/-- everything `execute` does before it selects the opcode -/
def preDispatch (a : Arch) : Arch := takeInt (takeNmi (wake a))

def stepArch (a : Arch) : Arch × UInt32 × Option StepInfo :=
  if a.halt && !a.wakes then (a, 4, none)
  else ((dispatch (preDispatch a)).1, (dispatch (preDispatch a)).2.1, some (dispatch (preDispatch a)).2.2)

/- compiler-only replacement (`@[csimp]`, kernel-checked equal to the definition above): takes the owner of the
   memory array apart first, so that the array is updated in place instead of being copied -/
def stepArchFast (a : Arch) : Arch × UInt32 × Option StepInfo :=
  if a.halt && !a.wakes then (a, 4, none)
  else
    let r := dispatch (preDispatch a)
    (r.1, r.2.1, some r.2.2)

@[csimp] theorem stepArch_eq_fast : @stepArch = @stepArchFast := by
  funext a; rfl

def updateDebug (d : Debug) : Option StepInfo → Debug
  | none => d
  | some i =>
    match i.page with
    | .base => if i.unknown && d.unknw then { d with str := i.text } else d
    | _ => if (i.unknown && d.unknw) || d.opcode then { d with str := i.text } else d

/-- `CPU::execute` -/
def step (c : Cpu) : Cpu × UInt32 :=
  ({ c with arch := (stepArch c.arch).1, debug := updateDebug c.debug (stepArch c.arch).2.2 }, (stepArch c.arch).2.1)

def Cpu.intRequest (c : Cpu) (b : UInt8) : Cpu := { c with arch := { c.arch with int := some b } }
def Cpu.nmiRequest (c : Cpu) : Cpu := { c with arch := { c.arch with nmi := true } }

/-- `execute_timed`; `elapsed` is `slice_start_time.elapsed()` in ms (`none`: the clock went backwards). -/
def sliceFires (c : Cpu) : Bool := c.slice.cur > c.slice.max

def executeTimed (c : Cpu) (elapsed : Option UInt32) : Cpu × Option UInt32 :=
  ({ (step c).1 with slice := { c.slice with cur := (if sliceFires c then 0 else c.slice.cur) + (step c).2 } },
   if sliceFires c then elapsed.map (fun d => if d ≤ c.slice.duration then c.slice.duration - d else 0) else none)

/-- `set_freq(f)` for a frequency given in eighths of a MHz (`f = n8 / 8`, exactly representable in
    f32 together with `f * 10^6`) after `set_slice_duration(d)` with d dividing 1000: the budget the
    f32 computation `(f * 1_000_000) / (1000 / d)` yields is exact on this grid: n8 * 125 * d. -/
def Cpu.setFreqEighths (c : Cpu) (n8 : UInt32) : Cpu :=
  { c with slice := { c.slice with max := n8 * 125 * c.slice.duration } }

/-- `set_freq(f)` for an arbitrary positive normal single `f` (given by its bit pattern) after
    `set_slice_duration(d)`, d dividing 1000: the budget is the whole part of f x 1000 x d.  (The f32 code of the
    implementation is compared with this value wherever the fraction left over is not within 0.05 of an integer.) -/
def Cpu.setFreqBits (c : Cpu) (bits : UInt32) : Cpu :=
  match Spec.budgetOfBits bits c.slice.duration.toNat with
  | some (b, _) => { c with slice := { c.slice with max := UInt32.ofNat b } }
  | none => c

def Cpu.setSliceDuration (c : Cpu) (d : UInt32) : Cpu := { c with slice := { c.slice with duration := d } }

end Z80
