/-
  Z80.Model.Dasm — `CPU::dasm(address) -> (String, u8)` of src/dasm.rs.  Import-free.
-/
import Z80.Model.Step
import Z80.Model.DasmTable
namespace Z80

/-- the size `match` of src/dasm.rs l.925-932. -/
def dasmSize (op : UInt8) : UInt8 :=
  match op with
  | 0xC3 | 0xDA | 0xD2 | 0xCA | 0xC2 | 0xFA | 0xF2 | 0xEA | 0xE2 | 0xCD | 0xDC | 0xD4
  | 0xCC | 0xC4 | 0xFC | 0xF4 | 0xEC | 0xE4 => 3
  | 0x06 | 0x0E | 0x16 | 0x1E | 0x26 | 0x2E | 0x36 | 0x3E | 0xC6 | 0xCE | 0xD6 | 0xDE
  | 0xE6 | 0xF6 | 0xEE | 0xFE | 0xDB | 0xD3 | 0x10 | 0x18 | 0x38 | 0x30 | 0x28 | 0x20 | 0xCB => 2
  | 0x32 | 0x01 | 0x11 | 0x21 | 0x31 | 0x2A | 0x22 | 0x3A => 3
  | _ => 1

/-- relative target as `dasm` computes it: address + 2 minus or plus abs(e). -/
@[inline] def dasmRel (address : UInt16) (e : UInt8) : UInt16 :=
  if bitGet e 7 then address + 2 - (signedToAbs e).toUInt16 else address + 2 + e.toUInt16

def renderPiece (a : Arch) (address : UInt16) : Piece → String
  | .lit s => s
  | .b1 => hex2 (a.bus.readByte (address + 1))
  | .b2 => hex2 (a.bus.readByte (address + 2))
  | .w1 => hex4 (a.bus.readWord (address + 1))
  | .pair r => hex4 (a.reg.get16 r)
  | .rel => hex4 (dasmRel address (a.bus.readByte (address + 1)))

def render (a : Arch) (address : UInt16) (t : List Piece) : String :=
  String.join (t.map (renderPiece a address))

/-- text (whitespace runs collapsed) and size. -/
def dasm (a : Arch) (address : UInt16) : String × UInt8 :=
  let op := a.bus.readByte address
  let txt :=
    if op == 0xCB then
      let oc := a.bus.readByte (address + 1)
      "CB" ++ hex2 oc ++ " " ++ dasmCB.getD oc.toNat ""
    else render a address (dasmBase.getD op.toNat [])
  (txt, dasmSize op)

end Z80
