import Z80.Model.Basic
import Z80.Model.Alu
import Z80.Model.Instr
import Z80.Model.Exec
import Z80.Model.Tables
import Z80.Model.Step
import Z80.Model.DasmTable
import Z80.Model.Dasm
